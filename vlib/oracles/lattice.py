"""Reference model of a Cartesian lattice region (C01, reused by C03/C04/C11/C18).

The model is built from what the generator knows: edge floats per axis (nearest floats of the decimal
lattice, or the unique origin floats of a shipped region) and the active cells with their polygon index.
A probe's true column is found by *exact* float comparison with the edges; the column to the east/north
is also admissible when the probe lies inside the documented round-off band below that edge (the same band
as the 1-D oracle). 'OUT' = outside the bounding box or an inactive cell.
"""
from decimal import Decimal

import numpy

from . import binning


class Lattice:
    def __init__(self, ex, ey, cell_index):
        """ex, ey: edge floats (n+1 each, last = outer edge); cell_index: int array (nx, ny), -1 = inactive/hole."""
        self.ex = numpy.asarray(ex, dtype=float)
        self.ey = numpy.asarray(ey, dtype=float)
        self.ci = numpy.asarray(cell_index, dtype=int)
        self.nx, self.ny = self.ci.shape

    @classmethod
    def from_decimal(cls, ax, ay, dh, nx, ny, cells, flags=None):
        """cells: list of (i,j) in polygon order; flags: optional 0/1 per polygon (0 = masked out)."""
        ax, ay, dh = Decimal(str(ax)), Decimal(str(ay)), Decimal(str(dh))
        ex = [float(ax + i * dh) for i in range(nx + 1)]
        ey = [float(ay + j * dh) for j in range(ny + 1)]
        ci = -numpy.ones((nx, ny), dtype=int)
        for k, (i, j) in enumerate(cells):
            if flags is None or flags[k] == 1:
                ci[i, j] = k
        return cls(ex, ey, ci)

    @classmethod
    def from_origins(cls, origins, dh):
        """Model of a shipped region: columns/rows = unique origin floats (gaps filled by float addition)."""
        o = numpy.asarray(origins, dtype=float)

        def axis(v):
            u = numpy.unique(v)
            out = [u[0]]
            for x in u[1:]:
                while x - out[-1] > 1.5 * dh:
                    out.append(out[-1] + dh)
                out.append(x)
            out.append(out[-1] + dh)
            return numpy.array(out)
        ex, ey = axis(o[:, 0]), axis(o[:, 1])
        ci = -numpy.ones((len(ex) - 1, len(ey) - 1), dtype=int)
        ix = numpy.searchsorted(ex, o[:, 0], side="right") - 1
        iy = numpy.searchsorted(ey, o[:, 1], side="right") - 1
        ci[ix, iy] = numpy.arange(len(o))
        return cls(ex, ey, ci)

    def _axis(self, p, e):
        """true index (exact comparisons; -1 below, n at/above outer edge) and whether index+1 is also admissible."""
        n = e.size - 1
        tk = numpy.searchsorted(e, p, side="right") - 1
        nxt = numpy.clip(tk + 1, 0, n)
        b = binning.band(p, nxt.astype(float), e[0], binning.EPS64, None)
        alt = (tk + 1 <= n) & ((e[nxt] - p) <= b)
        return tk, alt

    def admissible(self, lon, lat):
        """Returns (primary, alts): primary = expected observation (cell index or -1 for OUT); alts = list of up to 3 alternative
        observations admissible because of the round-off band (array each, -2 = not applicable)."""
        lon = numpy.asarray(lon, dtype=float)
        lat = numpy.asarray(lat, dtype=float)
        tx, ax_ = self._axis(lon, self.ex)
        ty, ay_ = self._axis(lat, self.ey)

        def obs(ix, iy):
            inside = (ix >= 0) & (ix < self.nx) & (iy >= 0) & (iy < self.ny)
            o = -numpy.ones(lon.shape, dtype=int)
            o[inside] = self.ci[ix[inside], iy[inside]]
            return o
        primary = obs(tx, ty)
        alts = [numpy.where(ax_, obs(tx + 1, ty), -2), numpy.where(ay_, obs(tx, ty + 1), -2), numpy.where(ax_ & ay_, obs(tx + 1, ty + 1), -2)]
        return primary, alts, (ax_ | ay_)

    def accepted(self, lon, lat, observed):
        """Boolean array: observation (cell index, -1 = OUT) admissible for each probe."""
        primary, alts, inband = self.admissible(lon, lat)
        observed = numpy.asarray(observed, dtype=int)
        ok = observed == primary
        for a in alts:
            ok |= (a != -2) & (observed == a)
        return ok, primary, inband

    def near_boundary(self, lon, lat, ulps=4096):
        def near(p, e):
            j = numpy.clip(numpy.searchsorted(e, p), 0, e.size - 1)
            j0 = numpy.clip(j - 1, 0, e.size - 1)
            d = numpy.minimum(numpy.abs(p - e[j]), numpy.abs(p - e[j0]))
            return d <= ulps * numpy.spacing(numpy.maximum(numpy.abs(p), 1e-300))
        lon = numpy.asarray(lon, dtype=float)
        lat = numpy.asarray(lat, dtype=float)
        return near(lon, self.ex) | near(lat, self.ey)


class UnionLattice(Lattice):
    """Several legitimate readings of the same region (e.g. decimal lattice lines vs. the float origins that are an ulp
    off them): an observation is admissible if it is admissible under any reading; a violation contradicts all of them."""

    def __init__(self, models):
        m = models[0]
        Lattice.__init__(self, m.ex, m.ey, m.ci)
        self.models = models

    def admissible(self, lon, lat):
        primary, alts, inband = self.models[0].admissible(lon, lat)
        alts = list(alts)
        for m in self.models[1:]:
            p2, a2, b2 = m.admissible(lon, lat)
            alts.append(p2)
            alts.extend(a2)
            inband = inband | b2 | (p2 != primary)
        return primary, alts, inband


def axis_candidates(e, rng, max_edges=24):
    """Probe coordinates along one axis: edges +-ulps, centres, beyond the box on both sides."""
    e = numpy.asarray(e, dtype=float)
    n = e.size
    sel = numpy.arange(n) if n <= max_edges else numpy.unique(numpy.concatenate([[0, 1, n - 2, n - 1], rng.integers(0, n, max_edges - 4)]))
    offs = numpy.array([0, 1, -1, 2, -2, 3, -3, 16, -16, 4096, -4096, 2 ** 20, -2 ** 20])
    near = binning.ulp_shift(numpy.repeat(e[sel], offs.size), numpy.tile(offs, sel.size))
    h = e[1] - e[0]
    mids = e[sel[:-1]] + h * rng.uniform(0.1, 0.9, max(sel.size - 1, 0)) if sel.size > 1 else numpy.array([e[0] + 0.5 * h])
    beyond = numpy.array([e[0] - 1e-9 * max(1.0, abs(e[0])), e[0] - 0.5 * h, e[0] - 100.0, binning.ulp_shift(numpy.array([e[0]]), -1)[0],
                          e[-1] + 0.5 * h, e[-1] + h, e[-1] + 1.5 * h, e[-1] + 2.5 * h, e[-1] + 100.0, e[-1] + 37.3 * h])
    return numpy.unique(numpy.concatenate([near, mids, beyond]))
