"""C01 - Cartesian regions assign each point to the one half-open cell containing it."""
from decimal import Decimal

import numpy

from .. import fixtures
from ..core import digest
from ..oracles import binning, lattice

META = {
    "title": "Cartesian regions: one half-open cell per point",
    "level": "exploration",
    "rule": ("regions = decimal lattices (dh in {0.1,0.05,0.2,0.25,0.5,1,0.025,0.01,0.3}; anchors negative/positive/zero-crossing/half-cell; "
             "extents 1..40 per axis incl. 1xn, nx1, 1x1; random holes / rings / L-shapes; mask flags 0/1; permuted cell order; built via "
             "from_origins, constructor with mask=, from_dict(to_dict), midpoint-derived origins) + shipped NZ / NZ-collection / Italy-collection / "
             "California-collection / global regions. Probes = product of per-axis candidates: every (sampled) edge +-{0,1,2,3,16,4096,2^20} ulps, "
             "cell interiors, beyond the box on all sides. Entry points: get_masked, get_index_of (batch + point-by-point), filter_spatial, "
             "spatial_counts, spatial_event_probability, get_cartesian, get_location_of. Non-trivial: probe within 4096 ulps of a cell boundary, "
             "in a hole / flagged-out cell, or outside the box; distinct = (region digest, probe)."),
    "assumptions": ["cell of a probe decided by exact float comparison with the lattice edge floats; east/north neighbour also admissible "
                    "inside the documented round-off band max(8(k+2),4096)*eps*(|p|+|a0|) below an edge",
                    "C02 contract on bin1d_vec stays installed underneath"],
    "deciding": ["lookup:get_masked", "lookup:get_index_of", "agree:filter_spatial", "agree:spatial_counts", "invariant:region"],
}
META["added"] = 'Added while building / after seeding rounds: 2-d shaped batches for get_masked; union-of-readings model for midpoint-derived origins; odd spacings (0.04, 0.07, 0.125, 0.15, 0.0125, 0.6, 2, 0.03) and anchors; structured degenerate shapes (single row / column with unequal anchors); model-decided batch lookups; catalogs already bound to another region before filter_spatial; masked_region; get_bbox. batch-composition independence of get_masked.'
MANIFEST = {
    "technique": "invariant on live CartesianGrid2D objects after construction + boundary recorder on seven lookup entry points compared with an exact-comparison lattice reference model; cross-entry agreement checks; bin1d_vec contract active underneath",
    "level_text": "For each generated or shipped region the object invariant (mask/index-map bijection, edge arrays) is evaluated once and ~3000 boundary-adjacent probe points are pushed through masking, index lookup (batch and point by point), spatial filtering and per-cell counting; every answer is compared with the unique cell found by exact comparison against the lattice edges (either neighbour accepted only inside the documented band), and the entry points must agree with each other.",
    "level_note": "Trusted: exact float comparisons against decimal-lattice edge floats. Lattices are decimal with <= 3 digits; global region at 1 deg (quick) / 0.5 deg (thorough) because 0.1 deg does not fit the sandbox.",
}
WATCHDOG_S = {"quick": 900, "thorough": 7200}
DHS = ["0.1", "0.05", "0.2", "0.25", "0.5", "1", "0.025", "0.01", "0.3", "0.04", "0.07", "0.125", "0.15", "0.0125", "0.6", "2", "0.03"]
ANCHORS = ["0", "-125.4", "31.5", "165.7", "-47.95", "-0.5", "-180", "10", "-0.05", "3.0", "359.9", "-34.85", "2.5", "12.35", "-90", "0.001",
           "0.1", "0.06", "-0.1", "0.7", "1.1", "-179.975", "33.3", "-0.3"]


def shards(tier):
    return 4 if tier == "quick" else 16


def gen_lattice(r, force=None):
    dh = str(r.choice(DHS))
    ax, ay = str(r.choice(ANCHORS)), str(r.choice(ANCHORS))
    shape = force or int(r.integers(0, 8))
    if shape == 0:
        nx, ny = 1, int(r.integers(1, 12))
    elif shape == 1:
        nx, ny = int(r.integers(1, 12)), 1
    elif shape == 2:
        nx, ny = 1, 1
    else:
        nx, ny = int(r.integers(2, 41)), int(r.integers(2, 41))
        if nx * ny > 900:
            ny = max(2, 900 // nx)
    cells = [(i, j) for i in range(nx) for j in range(ny)]
    hole = int(r.integers(0, 5))
    if nx * ny > 3:
        if hole == 1:
            keep = r.uniform(size=len(cells)) > 0.25
            cells = [c for c, k in zip(cells, keep) if k] or cells[:1]
        elif hole == 2 and nx > 2 and ny > 2:
            cells = [c for c in cells if c[0] in (0, nx - 1) or c[1] in (0, ny - 1)]          # ring
        elif hole == 3:
            cells = [c for c in cells if not (c[0] >= nx // 2 and c[1] >= ny // 2)] or cells[:1]   # L-shape
    # bounding box must be spanned by the remaining cells (a region only knows its own cells)
    is_ = sorted({c[0] for c in cells})
    js_ = sorted({c[1] for c in cells})
    i0, j0 = is_[0], js_[0]
    cells = [(i - i0, j - j0) for i, j in cells]
    nx, ny = is_[-1] - i0 + 1, js_[-1] - j0 + 1
    axd, ayd, dhd = Decimal(ax) + i0 * Decimal(dh), Decimal(ay) + j0 * Decimal(dh), Decimal(dh)
    order = int(r.integers(0, 3))
    if order == 1:
        cells = [cells[k] for k in r.permutation(len(cells))]
    elif order == 2:
        cells = sorted(cells, key=lambda c: (c[1], c[0]))
    flags = None
    if r.uniform() < 0.3:
        flags = (r.uniform(size=len(cells)) > 0.3).astype(int).tolist()
        if not any(flags):
            flags[0] = 1
    ctor = str(r.choice(["from_origins", "ctor", "from_dict", "midpoint"]))
    if flags is not None:
        ctor = "ctor"
    return {"ax": str(axd), "ay": str(ayd), "dh": dh, "nx": nx, "ny": ny, "cells": cells, "flags": flags, "ctor": ctor}


def build_region(lat_case):
    from csep.core import regions
    from csep.models import Polygon
    ax, ay, dh = Decimal(lat_case["ax"]), Decimal(lat_case["ay"]), Decimal(lat_case["dh"])
    cells = [tuple(c) for c in lat_case["cells"]]
    origins = numpy.array([(float(ax + i * dh), float(ay + j * dh)) for i, j in cells], dtype=float).reshape(-1, 2)
    dhf = float(dh)
    ctor = lat_case["ctor"]
    if ctor == "midpoint":
        mids = numpy.array([(float(ax + i * dh + dh / 2), float(ay + j * dh + dh / 2)) for i, j in cells]).reshape(-1, 2)
        origins = mids - dhf / 2
    if ctor == "ctor" or lat_case.get("flags") is not None:
        polys = [Polygon(b) for b in regions.compute_vertices(origins, dhf)]
        mask = None if lat_case.get("flags") is None else numpy.array(lat_case["flags"])
        if mask is not None:
            # the per-cell flags arrive in whatever container the caller has: integer array, list, tuple, float array
            kind = (len(cells) + int(mask.sum())) % 4
            mask = [mask, [int(v) for v in mask], tuple(int(v) for v in mask), mask.astype(float)][kind]
        reg = regions.CartesianGrid2D(polys, dhf, mask=mask)
    else:
        reg = regions.CartesianGrid2D.from_origins(origins, dh=dhf)
        if ctor == "from_dict":
            reg = regions.CartesianGrid2D.from_dict(reg.to_dict())
    model = lattice.Lattice.from_decimal(lat_case["ax"], lat_case["ay"], lat_case["dh"], lat_case["nx"], lat_case["ny"], cells, lat_case.get("flags"))
    if ctor == "midpoint":
        # midpoint-derived origins are floats a few ulps off the decimal lattice: both the lattice lines and the float origins are
        # legitimate readings of "the cell boundary"; an answer is a violation only if it contradicts both
        model = lattice.UnionLattice([model, _model_with_edges(model, lat_case, origins)])
    return reg, model, origins


def _model_with_edges(model, lat_case, origins):
    """midpoint-derived origins are off the decimal lattice by an ulp: use the origin floats themselves as edges."""
    dec = lattice.Lattice.from_decimal(lat_case["ax"], lat_case["ay"], lat_case["dh"], lat_case["nx"], lat_case["ny"],
                                       [tuple(c) for c in lat_case["cells"]], lat_case.get("flags"))
    ex, ey = dec.ex.copy(), dec.ey.copy()
    for (i, j), (x, y) in zip(lat_case["cells"], origins):
        ex[i], ey[j] = x, y
    return lattice.Lattice(ex, ey, dec.ci)


def check_invariant(ctx, reg, model, rc, tags):
    ctx.mon("invariant:region", 1)
    n_active = int((model.ci >= 0).sum())
    bm = numpy.asarray(reg.bbox_mask)
    if bm.shape != (len(reg.ys), len(reg.xs)):
        ctx.violate("bbox_mask shape != (len(ys), len(xs))", rc, observed=bm.shape, expected=(len(reg.ys), len(reg.xs)), tags=tags)
        return
    if len(reg.xs) != model.nx or len(reg.ys) != model.ny:
        ctx.violate("region edge arrays do not span the lattice", rc, observed=[len(reg.xs), len(reg.ys)], expected=[model.nx, model.ny],
                    tags=dict(tags, clause="edges-length"))
        return
    if numpy.any(numpy.diff(reg.xs) <= 0) or numpy.any(numpy.diff(reg.ys) <= 0):
        ctx.violate("region edges not strictly increasing", rc, tags=tags)
    scale = max(float(reg.dh), float(numpy.abs(model.ex).max()), float(numpy.abs(model.ey).max()))
    dx = numpy.abs(numpy.asarray(reg.xs) - model.ex[:-1]) / numpy.spacing(numpy.maximum(numpy.abs(model.ex[:-1]), scale * 1e-3))
    dy = numpy.abs(numpy.asarray(reg.ys) - model.ey[:-1]) / numpy.spacing(numpy.maximum(numpy.abs(model.ey[:-1]), scale * 1e-3))
    if tags.get('ctor') in ('from_origins', 'ctor', 'from_dict') and ((dx > 2).any() or (dy > 2).any()):
        ctx.violate("region edges are more than 2 ulp off the lattice", rc, observed={"max_ulp_x": float(dx.max()), "max_ulp_y": float(dy.max())},
                    tags=dict(tags, clause="edges-value"))
    if int((bm == 0).sum()) != n_active:
        ctx.violate("number of unmasked bounding-box entries != number of active cells", rc, observed=int((bm == 0).sum()), expected=n_active,
                    tags=dict(tags, clause="mask-count"))
    im = numpy.asarray(reg.idx_map)
    got = im[bm == 0]
    if numpy.isnan(got).any() or sorted(got.astype(int).tolist()) != sorted(model.ci[model.ci >= 0].tolist()):
        ctx.violate("unmasked idx_map entries are not a bijection onto the active polygons", rc, tags=dict(tags, clause="idx-bijection"))
    else:
        want = model.ci.T            # (ny, nx)
        act = want >= 0
        if not numpy.array_equal(numpy.where(act, im, -1).astype(int)[act], want[act]) or not numpy.array_equal(bm == 0, act):
            ctx.violate("idx_map / bbox_mask do not put each polygon at its own lattice position", rc, tags=dict(tags, clause="idx-position"))


def probes_for(model, rng, per_axis=60):
    cx = lattice.axis_candidates(model.ex, rng)
    cy = lattice.axis_candidates(model.ey, rng)
    if cx.size > per_axis:
        cx = cx[rng.permutation(cx.size)[:per_axis]]
    if cy.size > per_axis:
        cy = cy[rng.permutation(cy.size)[:per_axis]]
    X, Y = numpy.meshgrid(cx, cy, indexing="ij")
    return X.ravel(), Y.ravel()


def check_region(ctx, reg, model, rc, tags, rng, origins=None, n_single=150):
    from csep.core.catalogs import CSEPCatalog
    lon, lat = probes_for(model, rng)
    if origins is not None and len(origins):
        k = rng.permutation(len(origins))[:400]
        lon = numpy.concatenate([lon, origins[k, 0], origins[k, 0] + 0.5 * reg.dh])
        lat = numpy.concatenate([lat, origins[k, 1], origins[k, 1] + 0.5 * reg.dh])
    # --- get_masked (vectorised)
    ok, masked, tb = ctx.call(reg.get_masked, lon, lat)
    ctx.mon("lookup:get_masked", 1)
    ctx.count(int(lon.size))
    if not ok:
        ctx.violate("get_masked raised", rc, observed=repr(masked), tb=tb, tags=dict(tags, api="get_masked"))
        return
    masked = numpy.asarray(masked, dtype=bool)
    primary, alts, inband = model.admissible(lon, lat)
    out_ok = primary == -1
    for a in alts:
        out_ok |= (a == -1)
    in_ok = primary >= 0
    for a in alts:
        in_ok |= (a >= 0)
    bad = (masked & ~out_ok) | (~masked & ~in_ok)
    single_axis = bool(model.nx == 1 or model.ny == 1)
    if bad.any():
        k = numpy.nonzero(bad)[0]
        beyond = bool(numpy.all((lon[k] >= model.ex[-1]) | (lat[k] >= model.ey[-1])))
        j = k[:6]
        ctx.violate("get_masked disagrees with the half-open cell partition", rc,
                    observed={"points": numpy.column_stack([lon[j], lat[j]]), "masked": masked[j]}, expected={"cell(-1=outside)": primary[j]},
                    tags=dict(tags, api="get_masked", clause="masked", reported_inside=bool((~masked[k]).all()),
                              beyond_open_side_of_single_row_or_column=bool(single_axis and beyond and (~masked[k]).all())))
    # --- batch-composition independence: the verdict on a point must not depend on which other points are asked in the same call;
    #     here: only the probes inside the CLOSED bounding box (so some lie exactly on its exclusive east / north edge, none beyond it)
    box = numpy.nonzero((lon >= model.ex[0]) & (lon <= model.ex[-1]) & (lat >= model.ey[0]) & (lat <= model.ey[-1]))[0]
    if 0 < box.size < lon.size:
        ok_b, m_b, tb_b = ctx.call(reg.get_masked, lon[box], lat[box])
        ctx.mon("lookup:get_masked", 1)
        if not ok_b or not numpy.array_equal(numpy.asarray(m_b, dtype=bool), masked[box]):
            d = numpy.nonzero(numpy.asarray(m_b, dtype=bool) != masked[box])[0][:5] if ok_b else []
            ctx.violate("get_masked answers differently for the same points when asked in another batch", rc,
                        observed=repr(m_b)[:120] if not ok_b else {"points": numpy.column_stack([lon[box][d], lat[box][d]]), "masked_in_sub_batch": numpy.asarray(m_b)[d]},
                        expected={"masked_in_full_batch": masked[box][d] if ok_b else None}, tags=dict(tags, api="get_masked", clause="batch-dependence"))
    # --- the same points handed over as 2-d arrays (a meshgrid over the map, or the (1, n) packing numpy.split gives): same verdict per point
    for shape2 in ((2, lon.size // 2), (1, lon.size)):
        m2 = shape2[0] * shape2[1]
        if shape2[1] < 2:
            continue
        ok_2, m_2, tb_2 = ctx.call(reg.get_masked, lon[:m2].reshape(shape2), lat[:m2].reshape(shape2))
        ctx.mon("lookup:get_masked", 1)
        if not ok_2 or numpy.asarray(m_2).size != m2 or not numpy.array_equal(numpy.asarray(m_2, dtype=bool).ravel(), masked[:m2]):
            d = numpy.nonzero(numpy.asarray(m_2, dtype=bool).ravel() != masked[:m2])[0][:5] if ok_2 and numpy.asarray(m_2).size == m2 else []
            ctx.violate("get_masked answers differently for the same points when asked in another batch", rc,
                        observed=repr(m_2)[:120] if not len(d) else {"points": numpy.column_stack([lon[:m2][d], lat[:m2][d]]), "masked_in_2d_batch": numpy.asarray(m_2).ravel()[d]},
                        expected={"masked_in_full_batch": masked[:m2][d] if len(d) else None}, tags=dict(tags, api="get_masked", clause="batch-dependence", form="2-d %r" % (shape2[0],)))
    # --- get_index_of, batch on points the library calls inside
    ins = numpy.nonzero(~masked)[0]
    idx_obs = -numpy.ones(lon.size, dtype=int)
    if ins.size:
        ok, idx, tb = ctx.call(reg.get_index_of, lon[ins], lat[ins])
        ctx.mon("lookup:get_index_of", 1)
        if not ok:
            ctx.violate("get_index_of raises on points that get_masked reports inside", rc, observed=repr(idx), tb=tb,
                        tags=dict(tags, api="get_index_of", clause="agree-masked-index"))
        else:
            idx_obs[ins] = numpy.asarray(idx, dtype=int)
            okacc, prim, _ = model.accepted(lon[ins], lat[ins], idx_obs[ins])
            if (~okacc).any():
                k = ins[numpy.nonzero(~okacc)[0]]
                beyond = bool(numpy.all((lon[k] >= model.ex[-1]) | (lat[k] >= model.ey[-1])))
                j = k[:6]
                ctx.violate("get_index_of attributes a point to a cell that does not contain it", rc,
                            observed={"points": numpy.column_stack([lon[j], lat[j]]), "index": idx_obs[j]}, expected={"cell(-1=outside)": primary[j]},
                            tags=dict(tags, api="get_index_of", clause="index",
                                      beyond_open_side_of_single_row_or_column=bool(single_axis and beyond)))
    # --- batch lookup decided by the model alone (independent of get_masked): all model-inside points must be indexed, and a batch that
    #     contains one model-outside point must be rejected as a whole
    sure_in = numpy.nonzero((primary >= 0) & ~inband)[0]
    sure_out = numpy.nonzero((primary == -1) & ~inband)[0]
    if sure_in.size:
        ok, idx2, tb = ctx.call(reg.get_index_of, lon[sure_in], lat[sure_in])
        ctx.mon("lookup:get_index_of", 1)
        if not ok or not numpy.array_equal(numpy.asarray(idx2, dtype=int), primary[sure_in]):
            ctx.violate("batch index lookup of points inside active cells does not return their cells", rc,
                        observed=repr(idx2)[:160] if not ok else {"n_wrong": int(numpy.sum(numpy.asarray(idx2) != primary[sure_in]))},
                        tags=dict(tags, api="get_index_of", clause="index-batch"))
        if sure_out.size:
            k = int(sure_out[rng.integers(0, sure_out.size)])
            sub = sure_in[rng.permutation(sure_in.size)[:20]]
            ok, idx3, tb = ctx.call(reg.get_index_of, numpy.append(lon[sub], lon[k]), numpy.append(lat[sub], lat[k]))
            if ok:
                ctx.violate("batch index lookup accepts a point that lies in no active cell", rc,
                            observed={"point": [lon[k], lat[k]], "index": int(numpy.asarray(idx3)[-1])}, expected="ValueError",
                            tags=dict(tags, api="get_index_of", clause="index-batch-outside",
                                      in_hole_or_flagged=bool(model.ex[0] <= lon[k] < model.ex[-1] and model.ey[0] <= lat[k] < model.ey[-1])))
    # --- point by point: raises exactly when masked
    near = model.near_boundary(lon, lat)
    cand = numpy.concatenate([numpy.nonzero(near)[0], numpy.nonzero(masked)[0][:40]])
    cand = cand[rng.permutation(cand.size)[:n_single]]
    for k in cand.tolist():
        ok, r, tb = ctx.call(reg.get_index_of, numpy.array([lon[k]]), numpy.array([lat[k]]))
        ctx.mon("lookup:get_index_of", 1)
        if ok != (not masked[k]) or (not ok and not isinstance(r, ValueError)):
            ctx.violate("index lookup and masking disagree on whether a point is inside the region", rc,
                        observed={"point": [lon[k], lat[k]], "masked": bool(masked[k]), "lookup": "index %r" % (r,) if ok else repr(r)},
                        tags=dict(tags, api="get_index_of", clause="agree-masked-index"))
        elif ok and idx_obs[k] >= 0 and int(numpy.asarray(r).ravel()[0]) != idx_obs[k]:
            ctx.violate("single-point and batch lookup give different cells", rc, observed=[int(numpy.asarray(r).ravel()[0]), int(idx_obs[k])],
                        tags=dict(tags, api="get_index_of", clause="batch-vs-single"))
    # --- catalog entry points on the same points
    sel = rng.permutation(lon.size)[:1500]
    # half of the catalogs are already bound to some other region (history): the region handed to filter_spatial must win
    prebound = bool(rng.integers(0, 2))
    cat = fixtures.catalog(lon[sel], lat[sel], numpy.full(sel.size, 5.0), region=fixtures.region(3, 2, "0.5", "7", "-3") if prebound else None)
    tags = dict(tags, catalog_bound_to_other_region=prebound)
    # history: the same catalog object was first reduced, in place, to a twin region listing the same cells under the same name and
    # spacing with every cell active (the regions compare equal: flags are not part of a region's dictionary form); the flags of the
    # region handed to the second call must still decide
    twin_first = bool(reg.num_nodes <= 4000 and (tags.get("flags") or rng.integers(0, 3) == 0))
    if twin_first:
        from csep.core import regions as _regions
        ok, twin, tb = ctx.call(_regions.CartesianGrid2D.from_origins, numpy.array(reg.origins()), dh=reg.dh, name=reg.name)
        if ok:
            ok, _r, tb = ctx.call(cat.filter_spatial, twin, in_place=True)
            ctx.mon("history:filter_spatial(twin all-active) then filter_spatial(region)", 1)
        if not ok:
            twin_first = False
            cat = fixtures.catalog(lon[sel], lat[sel], numpy.full(sel.size, 5.0))
    tags = dict(tags, filtered_to_all_active_twin_first=twin_first)
    ok, kept, tb = ctx.call(cat.filter_spatial, reg, in_place=False)
    ctx.mon("agree:filter_spatial", 1)
    if not ok:
        ctx.violate("filter_spatial raised", rc, observed=repr(kept), tb=tb, tags=dict(tags, api="filter_spatial"))
    else:
        want_ids = [str(i).encode() for i in range(sel.size) if not masked[sel][i]]
        got_ids = kept.get_event_ids().tolist()
        if got_ids != want_ids:
            ctx.violate("filter_spatial does not keep exactly the events that masking reports inside, in order", rc,
                        observed={"kept": len(got_ids)}, expected={"inside": len(want_ids)}, tags=dict(tags, api="filter_spatial", clause="agree"))
        # counts of the kept catalog
        ok, cnt, tb = ctx.call(kept.spatial_counts)
        ctx.mon("agree:spatial_counts", 1)
        if ok:
            inside_sel = sel[~masked[sel]]
            if numpy.all(idx_obs[inside_sel] >= 0):
                ref = numpy.bincount(idx_obs[inside_sel], minlength=reg.num_nodes).astype(float)
                if not numpy.array_equal(numpy.asarray(cnt), ref):
                    ctx.violate("spatial_counts != histogram of index lookups", rc, observed=numpy.asarray(cnt)[:10], expected=ref[:10],
                                tags=dict(tags, api="spatial_counts", clause="agree"))
                ok2, prob, tb = ctx.call(kept.spatial_event_probability)
                if ok2 and not numpy.array_equal(numpy.asarray(prob), (ref > 0).astype(float)):
                    ctx.violate("spatial_event_probability != [spatial_counts > 0]", rc, tags=dict(tags, api="spatial_event_probability", clause="agree"))
        elif inside_sel_nonempty(masked, sel):
            ctx.violate("spatial_counts raised on a spatially filtered catalog", rc, observed=repr(cnt), tb=tb, tags=dict(tags, api="spatial_counts"))
        # unfiltered catalog with an outside event must be rejected
        if masked[sel].any() and not masked[sel].all() and not twin_first:
            cat.region = reg
            ok, cnt2, tb = ctx.call(cat.spatial_counts)
            if ok:
                ctx.violate("spatial_counts silently accepts events outside the region", rc, observed=float(numpy.sum(cnt2)), expected="ValueError",
                            tags=dict(tags, api="spatial_counts", clause="outside-not-rejected"))
    # --- get_cartesian / get_location_of
    ok, cart, tb = ctx.call(reg.get_cartesian, numpy.arange(reg.num_nodes, dtype=float))
    if ok:
        want = numpy.where(model.ci.T >= 0, model.ci.T.astype(float), numpy.nan)
        if cart.shape != want.shape or not numpy.array_equal(numpy.nan_to_num(cart, nan=-7.0), numpy.nan_to_num(want, nan=-7.0)):
            ctx.violate("get_cartesian does not place each cell's value at its bounding-box position", rc, tags=dict(tags, api="get_cartesian"))
    else:
        ctx.violate("get_cartesian raised", rc, observed=repr(cart), tags=dict(tags, api="get_cartesian"))
    ks = rng.integers(0, reg.num_nodes, min(20, reg.num_nodes))
    ok, polys, tb = ctx.call(reg.get_location_of, ks.tolist())
    if not ok:
        ctx.violate("get_location_of raised", rc, observed=repr(polys), tb=tb, tags=dict(tags, api="get_location_of"))
    elif any(tuple(p.origin) != tuple(reg.origins()[k]) for p, k in zip(polys, ks)):
        ctx.violate("get_location_of returns a polygon that is not the indexed cell", rc, tags=dict(tags, api="get_location_of"))
    nt = int((near | masked).sum())
    kk = numpy.nonzero(near)[0][:4]
    ctx.sample({"region": tags.get("ctor"), "dh": float(reg.dh), "edges_x_head": model.ex[:3], "edges_y_head": model.ey[:3],
                "probes(lon,lat)": numpy.column_stack([lon[kk], lat[kk]]), "masked": masked[kk], "index(-1=outside)": idx_obs[kk], "model_cell": primary[kk]})
    return nt


def inside_sel_nonempty(masked, sel):
    return bool((~masked[sel]).any())


def ex_lattice(ctx, lat_case, seed=0):
    rc = {"exec": "lattice", "args": {"lat_case": lat_case, "seed": seed}}
    ctx.current_case = rc
    tags = {"ctor": lat_case["ctor"], "single_row_or_column": bool(lat_case["nx"] == 1 or lat_case["ny"] == 1), "flags": lat_case.get("flags") is not None,
            "holes": len(lat_case["cells"]) < lat_case["nx"] * lat_case["ny"], "dh": lat_case["dh"]}
    ok, built, tb = ctx.call(build_region, lat_case)
    if not ok:
        ctx.violate("region construction raised", rc, observed=repr(built), tb=tb, tags=tags)
        return
    reg, model, origins = built
    check_invariant(ctx, reg, model, rc, tags)
    nt = check_region(ctx, reg, model, rc, tags, numpy.random.default_rng([seed, 1]), origins)
    ctx.nt_bulk(digest(("lat", lat_case, seed)), nt)


def ex_shipped(ctx, name, arg=None, seed=0):
    from csep.core import regions
    rc = {"exec": "shipped", "args": {"name": name, "arg": arg, "seed": seed}}
    ctx.current_case = rc
    tags = {"ctor": name, "shipped": True}
    f = getattr(regions, name)
    ok, reg, tb = ctx.call(f, **({} if arg is None else arg))
    if not ok:
        ctx.violate("shipped region construction raised", rc, observed=repr(reg), tb=tb, tags=tags)
        return
    origins = reg.origins()
    model = lattice.Lattice.from_origins(origins, float(reg.dh))
    check_invariant(ctx, reg, model, rc, tags)
    rng = numpy.random.default_rng([seed, 2])
    nt = check_region(ctx, reg, model, rc, tags, rng, origins, n_single=300)
    # hard clause: every cell's own origin and centre map to that cell
    k = rng.permutation(len(origins))[:3000]
    for off, lab in ((0.0, "origin"), (0.5 * reg.dh, "centre")):
        ok, idx, tb = ctx.call(reg.get_index_of, origins[k, 0] + off, origins[k, 1] + off)
        if not ok or not numpy.array_equal(numpy.asarray(idx), k):
            ctx.violate("a cell's own %s is not attributed to that cell" % lab, rc, observed=repr(idx)[:200], tags=dict(tags, clause="own-" + lab))
    ctx.count(6000)
    ctx.nt_bulk(digest(("shipped", name, arg, seed)), nt + 6000)


EXECUTORS = {"lattice": ex_lattice, "shipped": ex_shipped}


def install(ctx):
    import csep.utils.calc as calc
    import csep.core.regions  # noqa
    import csep.core.catalogs  # noqa
    import csep.core.forecasts  # noqa
    binning.install(ctx, calc, "C02")


def run(ctx):
    install(ctx)
    thorough = ctx.tier == "thorough"
    n = 40000 if thorough else 160
    ci = 0
    for j in range(n):
        ci += 1
        if not ctx.mine(ci):
            continue
        r = ctx.rng("c01", j)
        case = gen_lattice(r, force=(j % 8 if j < 64 else None))
        ex_lattice(ctx, case, seed=j)
        if j % 40 == 0:
            ctx.sample({"anchor": [case["ax"], case["ay"]], "dh": case["dh"], "extent": [case["nx"], case["ny"]], "active_cells": len(case["cells"]),
                        "flags": case["flags"] is not None, "ctor": case["ctor"]})
    # structured degenerate shapes: single column / single row / single cell on every anchor, decimal and midpoint-derived origins
    k = 0
    for a in ANCHORS:
        for dh in ("0.1", "0.025", "0.5"):
            for shape in ((1, 5), (4, 1), (1, 1)):
                for ctor in ("from_origins", "midpoint"):
                    k += 1
                    ci += 1
                    if not ctx.mine(ci) or (not thorough and k % 3):
                        continue
                    nx_, ny_ = shape
                    case = {"ax": a, "ay": ANCHORS[(k * 7) % len(ANCHORS)], "dh": dh, "nx": nx_, "ny": ny_,
                            "cells": [(i, j) for i in range(nx_) for j in range(ny_)], "flags": None, "ctor": ctor}
                    ex_lattice(ctx, case, seed=1000 + k)
    shipped = [("nz_csep_region", None)]
    if thorough:
        shipped += [("nz_csep_region", {"dh_scale": 2}), ("nz_csep_region", {"dh_scale": 4}), ("nz_csep_collection_region", None),
                    ("italy_csep_collection_region", None), ("california_relm_collection_region", None), ("global_region", {"dh": 0.5})]
    else:
        shipped += [("nz_csep_collection_region", None), ("italy_csep_collection_region", None), ("california_relm_collection_region", None),
                    ("global_region", {"dh": 1.0})]
    for name, arg in shipped:
        ci += 1
        if ctx.mine(ci):
            ex_shipped(ctx, name, arg, seed=ctx.seed)
            ctx.sample({"shipped_region": name, "arg": arg})
