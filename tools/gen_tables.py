#!/usr/bin/env python3
"""Regenerate the generated tables of DESIGN.md (between <!-- BEGIN:x --> / <!-- END:x --> markers) from
known_findings.json, seeded/*/meta.json and mutants/."""
import glob, json, os, re, subprocess
V = os.path.dirname(os.path.dirname(os.path.abspath(__file__)))
kf = json.load(open(os.path.join(V, "known_findings.json")))["findings"]
rows = ["| id | property | status | repo commit | what failed |", "|---|---|---|---|---|"]
for f in kf:
    rows.append("| %s | %s | %s | %s | %s |" % (f["id"], f["property"], f["status"], f.get("commit", "-"), f["line"].split(" ", 3)[-1] if f.get("line") else f["what"]))
findings = "\n".join(rows)
rows = ["| seeded change | property | needs to manifest | confirmed (demo fails, suite still passes) | detected by |", "|---|---|---|---|---|"]
for d in sorted(glob.glob(os.path.join(V, "seeded", "*"))):
    mp = os.path.join(d, "meta.json")
    if not os.path.exists(mp):
        continue
    m = json.load(open(mp))
    det = ", ".join("%s (%s)" % (k, "; ".join(v["clauses"][:2])[:110]) for k, v in m["checks"].items() if v["detected"]) or "**missed**"
    rows.append("| %s | %s | %s | %s | %s |" % (m["id"], m["property"], m.get("needs_to_manifest", "see NOTES.md"), "yes" if m["confirmed"] else "NO", det))
seeded = "\n".join(rows)
muts = sorted(os.path.basename(p) for p in glob.glob(os.path.join(V, "mutants", "*.patch")))
mut = "\n".join("- `%s`" % m for m in muts)
p = os.path.join(V, "DESIGN.md")
s = open(p).read()
# ---- section 3: per-property blocks from the META / MANIFEST dictionaries of the checks (read with the repository's interpreter)
dump = subprocess.run(["/venv/bin/python", "-c", (
    "import sys, json, importlib; sys.path.insert(0, %r)\n"
    "out = {}\n"
    "for i in range(1, 21):\n"
    "    m = importlib.import_module('vlib.props.c%%02d' %% i)\n"
    "    out['C%%02d' %% i] = {'META': m.META, 'MANIFEST': m.MANIFEST, 'shards': [m.shards('quick'), m.shards('thorough')]}\n"
    "print(json.dumps(out, default=repr))\n") % V], capture_output=True, text=True, env=dict(os.environ, PYTHONWARNINGS="ignore", MPLBACKEND="Agg"))
blocks = []
if dump.returncode == 0:
    metas = json.loads(dump.stdout.strip().splitlines()[-1])
    appb = s[s.index("## Appendix B"):] if "## Appendix B" in s else ""

    def para(pid, label):
        m_ = re.search(r"### %s .*?\n(.*?)(?=\n### C\d\d |\Z)" % pid, appb, flags=re.S)
        if not m_:
            return None
        q = re.search(r"\*%s[^*]*\*\s*(.*?)(?=\n\n\*[A-Z]|\Z)" % label, m_.group(1), flags=re.S)
        return " ".join(q.group(1).split()) if q else None
    for pid in sorted(metas):
        M, F = metas[pid]["META"], metas[pid]["MANIFEST"]
        b = ["### %s — %s" % (pid, M["title"]), ""]
        r = para(pid, "Refuting events")
        if r:
            b += ["*Refuting events.* " + r, ""]
        b += ["*Deciding technique.* " + F["technique"] + ".", ""]
        b += ["*Deciding monitors (a run in which one of them has 0 evaluations is inconclusive).* " + ", ".join("`%s`" % d for d in M["deciding"]) + ".", ""]
        b += ["*What a run does.* " + F["level_text"], ""]
        b += ["*Workload, non-trivial / distinct rule (also written into the evidence file).* " + M["rule"] + (" " + M["added"] if M.get("added") else ""), ""]
        if M.get("exhaustive_tiers"):
            b += ["*Exhaustively enumerated sub-spaces.* " + "; ".join("%s: %s" % (t, ", ".join("%s%s" % (k, "" if v is True else " = %s" % v) for k, v in d.items()))
                                                                       for t, d in M["exhaustive_tiers"].items()) + ".", ""]
        b += ["*Trusted / assumed.* " + "; ".join(M.get("assumptions", [])) + (". " + F["level_note"] if F.get("level_note") else "."), ""]
        lim = para(pid, "Limits")
        if lim:
            b += ["*Limits.* " + lim, ""]
        b += ["*Shards.* quick %d, thorough %d (one subprocess each, merged by the parent)." % tuple(metas[pid]["shards"]), ""]
        blocks.append("\n".join(b))
    s = re.sub(r"(<!-- BEGIN:asbuilt -->)(.*?)(<!-- END:asbuilt -->)", lambda m_: m_.group(1) + "\n" + "\n".join(blocks) + m_.group(3), s, flags=re.S)
else:
    print("asbuilt block NOT regenerated:", dump.stderr[-300:])
for name, body in (("findings", findings), ("seeded", seeded), ("mutants", mut)):
    s = re.sub(r"(<!-- BEGIN:%s -->)(.*?)(<!-- END:%s -->)" % (name, name), lambda m_: m_.group(1) + "\n" + body + "\n" + m_.group(3), s, flags=re.S)
open(p, "w").write(s)
print("tables regenerated:", len(kf), "findings,", len(glob.glob(os.path.join(V, "seeded", "*"))), "seeded,", len(muts), "mutants")
