"""C15 - time conversions exact to the millisecond and order preserving.

Deciding monitors: post-conditions on the real csep.utils.time_utils functions (rebound in csep,
catalogs, forecasts, readers, ...), oracle in integer/Fraction arithmetic only; plus round-trip and
monotonicity checkers over complete windows of consecutive milliseconds.
"""
import calendar
import datetime
import re
from fractions import Fraction

import numpy

from .. import monitor
from ..core import digest

UTC = datetime.timezone.utc
EPOCH = datetime.datetime(1970, 1, 1, tzinfo=UTC)
MS = datetime.timedelta(milliseconds=1)
US = datetime.timedelta(microseconds=1)
LO = datetime.datetime(1900, 1, 1, tzinfo=UTC)
HI = datetime.datetime(2200, 1, 1, tzinfo=UTC)
LO_MS = (LO - EPOCH) // MS
HI_MS = (HI - EPOCH) // MS

META = {
    "title": "Time conversions exact to the ms and monotone",
    "level": "exploration",
    "rule": ("integer-ms instants in 1900..2200: complete windows of consecutive ms (+-W ms) around epoch 0, every New Year "
             "1900..2200, Feb28/29->Mar1 of leap and non-leap years, sampled day/second boundaries, plus uniform instants; "
             "datetimes at every microsecond phase of 2 ms windows (naive and UTC-aware); strings with/without fraction, 1-6 "
             "fraction digits, '+00:00' suffix, ' ' and 'T' separators; decimal years on the same windows. Each instant goes "
             "through epoch->datetime->epoch, datetime->epoch->datetime, format->parse, decimal_year and its inverse, all under "
             "post-conditions. Non-trivial: ms value with non-zero millisecond part, or within 2 s of a listed boundary, or "
             "negative; distinct = distinct instants (x operation kind)."),
    "assumptions": ["python datetime/timedelta integer arithmetic is the reference", "POSIX branch of epoch_time_to_utc_datetime (os.name != 'nt')"],
    "deciding": ["time_utils.epoch_time_to_utc_datetime", "time_utils.datetime_to_utc_epoch", "time_utils.strptime_to_utc_epoch",
                 "time_utils.decimal_year", "time_utils.decimal_year_to_utc_datetime"],
}

META["added"] = "Added: ms windows scaled to +-16000 (thorough), callers through catalogs / forecasts, each shard under another process time zone (UTC, JST-9, US Eastern and NZ with DST), the repository's own test-suite as a workload (thorough). UTC-aware datetimes with another tzinfo object."
MANIFEST = {
    "technique": "runtime post-conditions on the real time_utils functions (all call sites) vs integer/Fraction arithmetic; exhaustive windows of consecutive milliseconds around calendar boundaries + uniform sampling; round-trip and monotonicity checkers",
    "level_text": "Every ms in +-200 ms (quick) / +-16000 ms (thorough) around epoch 0, all 301 New Years 1900..2200, leap-day boundaries and sampled day/second boundaries is converted both ways through the real functions (exhaustive per window), plus 10^5/10^6 uniform instants, all microsecond phases of 2 ms windows, formatted strings in all supported spellings and decimal-year triples; each call is checked against an integer-arithmetic oracle.",
    "level_note": "Trusted: CPython datetime integer arithmetic. The 9.5e12 integer-ms domain is sampled outside the exhaustive windows.",
}

WATCHDOG_S = {"quick": 600, "thorough": 3600}


def shards(tier):
    return 4 if tier == "quick" else 16


def _tu():
    import csep.utils.time_utils as tu
    return tu


def ms_to_dt(m):
    return EPOCH + datetime.timedelta(milliseconds=int(m))


def dt_to_us(d):
    if d.tzinfo is None:
        d = d.replace(tzinfo=UTC)
    return (d - EPOCH) // US


STR_RE = re.compile(r"^(\d{4})-(\d{2})-(\d{2})([ T])(\d{2}):(\d{2}):(\d{2})(?:\.(\d{1,6}))?(\+00:00)?$")


def parse_ref(s):
    """Independent parser -> microseconds since epoch, or None when not in the tested grammar."""
    m = STR_RE.match(s)
    if not m:
        return None
    y, mo, d, sep, hh, mm, ss, frac, off = m.groups()
    us = int((frac or "0").ljust(6, "0"))
    try:
        dt = datetime.datetime(int(y), int(mo), int(d), int(hh), int(mm), int(ss), us, tzinfo=UTC)
    except ValueError:
        return None
    return dt_to_us(dt)


def decyear_ref(d):
    """Exact calendar-aware year fraction as a Fraction."""
    if d.tzinfo is None:
        d = d.replace(tzinfo=UTC)
    y0 = datetime.datetime(d.year, 1, 1, tzinfo=UTC)
    y1 = datetime.datetime(d.year + 1, 1, 1, tzinfo=UTC)
    return d.year + Fraction((d - y0) // US, (y1 - y0) // US)


def in_range_dt(d):
    try:
        dd = d if d.tzinfo is not None else d.replace(tzinfo=UTC)
        return LO <= dd <= HI
    except Exception:  # noqa
        return False


def install(ctx):
    from ..core import set_process_time_zone
    set_process_time_zone(ctx)
    tu = _tu()
    import csep  # noqa
    import csep.core.catalogs  # noqa
    import csep.core.forecasts  # noqa
    import csep.utils.readers  # noqa

    def post_e2d(ctx, args, kwargs, result, exc, caller):
        m = args[0] if args else kwargs.get("epoch_time_milli")
        if m is None or isinstance(m, bool):
            return
        try:
            integral = float(m) == int(m)
        except Exception:  # noqa
            integral = False
        if not integral or not (LO_MS <= int(m) <= HI_MS):
            ctx.add("e2d_out_of_domain_calls")
            return
        case = {"exec": "e2d", "args": {"m": int(m), "as_float": isinstance(m, (float, numpy.floating))}}
        want = ms_to_dt(int(m))
        if exc is not None:
            ctx.violate("epoch->datetime raised", case, observed=repr(exc), tags={"caller": caller})
        elif not isinstance(result, datetime.datetime) or result.tzinfo is None or result != want:
            ctx.violate("epoch->datetime wrong", case, observed=str(result), expected=str(want),
                        tags={"fn": "e2d", "negative": int(m) < 0, "caller": caller})
    monitor.wrap(ctx, tu, "epoch_time_to_utc_datetime", post_e2d, mon_name="time_utils.epoch_time_to_utc_datetime")

    def post_d2e(ctx, args, kwargs, result, exc, caller):
        d = args[0] if args else kwargs.get("dt")
        if d is None or not isinstance(d, datetime.datetime) or not in_range_dt(d):
            ctx.add("d2e_out_of_domain_calls")
            return
        if d.tzinfo is not None and str(d.tzinfo) != "UTC":
            ctx.add("d2e_out_of_domain_calls")
            return
        us = dt_to_us(d)
        case = {"exec": "d2e", "args": {"us": us, "aware": d.tzinfo is not None}}
        whole = us % 1000 == 0
        if exc is not None:
            ctx.violate("datetime->epoch raised", case, observed=repr(exc), tags={"caller": caller})
            return
        try:
            r = int(result)
            isint = (r == result)
        except Exception:  # noqa
            isint = False
        if not isint:
            ctx.violate("datetime->epoch not an integer", case, observed=repr(result), tags={"caller": caller})
        elif whole and r != us // 1000:
            ctx.violate("datetime->epoch wrong for whole-ms datetime", case, observed=r, expected=us // 1000,
                        tags={"fn": "d2e", "whole_ms": True, "negative": us < 0, "off_by": r - us // 1000, "caller": caller})
        elif not whole and not (us // 1000 <= r <= us // 1000 + 1):
            ctx.violate("datetime->epoch more than 1 ms away", case, observed=r, expected=[us // 1000, us // 1000 + 1],
                        tags={"fn": "d2e", "whole_ms": False, "caller": caller})
    monitor.wrap(ctx, tu, "datetime_to_utc_epoch", post_d2e, mon_name="time_utils.datetime_to_utc_epoch")

    def mk_str(kind):
        def post(ctx, args, kwargs, result, exc, caller):
            a = dict(zip(("time_string", "format"), args))
            a.update(kwargs)
            s = a.get("time_string")
            if not isinstance(s, str):
                return
            us = parse_ref(s)
            fmt = a.get("format", "%Y-%m-%d %H:%M:%S.%f")
            if us is None or not (LO_MS * 1000 <= us <= HI_MS * 1000):
                ctx.add("strptime_out_of_domain_calls")
                return
            # the explicit format must describe the string for the call to be in-domain
            sep = "T" if "T" in s else " "
            fmts_ok = ["%Y-%m-%d %H:%M:%S.%f"] if sep == " " else []
            base = "%Y-%m-%d" + sep + "%H:%M:%S"
            fmts_ok += [base + (".%f" if "." in s else "") + ("%z" if s.endswith("+00:00") else "")]
            if fmt not in fmts_ok:
                ctx.add("strptime_out_of_domain_calls")
                return
            case = {"exec": "strp", "args": {"s": s, "format": fmt, "kind": kind}}
            if exc is not None:
                ctx.violate("parse raised", case, observed=repr(exc), tags={"fn": kind, "caller": caller,
                                                                              "suffix": s.endswith("+00:00"), "fraction": "." in s})
                return
            if kind == "epoch":
                ok = (result == us // 1000) if us % 1000 == 0 else (us // 1000 <= result <= us // 1000 + 1)
                if not ok:
                    ctx.violate("string->epoch wrong", case, observed=result, expected=us // 1000,
                                tags={"fn": "strp_epoch", "off_by": int(result) - us // 1000, "caller": caller})
            else:
                want = EPOCH + datetime.timedelta(microseconds=us)
                if result != want or result.tzinfo is None:
                    ctx.violate("string->datetime wrong", case, observed=str(result), expected=str(want),
                                tags={"fn": "strp_dt", "caller": caller})
        return post
    monitor.wrap(ctx, tu, "strptime_to_utc_epoch", mk_str("epoch"), mon_name="time_utils.strptime_to_utc_epoch")
    monitor.wrap(ctx, tu, "strptime_to_utc_datetime", mk_str("datetime"), mon_name="time_utils.strptime_to_utc_datetime")

    def post_dy(ctx, args, kwargs, result, exc, caller):
        d = args[0] if args else kwargs.get("test_date")
        if d is None or not isinstance(d, datetime.datetime) or not in_range_dt(d):
            return
        if d.tzinfo is not None and d.utcoffset() != datetime.timedelta(0):
            return
        case = {"exec": "decyear", "args": {"us": dt_to_us(d)}}
        if exc is not None:
            ctx.violate("decimal_year raised", case, observed=repr(exc), tags={"caller": caller})
            return
        ref = decyear_ref(d)
        if abs(Fraction(float(result)) - ref) > Fraction(1, 10 ** 11):
            ctx.violate("decimal_year off the calendar fraction", case, observed=float(result), expected=float(ref),
                        tags={"fn": "decyear", "leap": calendar.isleap(d.year), "caller": caller})
    monitor.wrap(ctx, tu, "decimal_year", post_dy, mon_name="time_utils.decimal_year")

    def mk_inv(kind):
        def post(ctx, args, kwargs, result, exc, caller):
            y = args[0] if args else kwargs.get("decimal_date")
            try:
                yf = float(y)
            except Exception:  # noqa
                return
            if not (1900.0 <= yf < 2200.0):
                return
            case = {"exec": "decinv", "args": {"y": yf, "kind": kind}}
            if exc is not None:
                ctx.violate("decimal_year inverse raised", case, observed=repr(exc), tags={"caller": caller})
                return
            yi = int(yf // 1)
            y0 = datetime.datetime(yi, 1, 1, tzinfo=UTC)
            y1 = datetime.datetime(yi + 1, 1, 1, tzinfo=UTC)
            ref_us = dt_to_us(y0) + (Fraction(yf) - yi) * ((y1 - y0) // US)
            got_us = dt_to_us(result) if kind == "datetime" else int(result) * 1000
            slack = 1000 if kind == "datetime" else 2000     # epoch form truncates to ms on top
            if abs(got_us - ref_us) > slack:
                ctx.violate("decimal_year inverse off by more than 1 ms", case, observed=got_us, expected=float(ref_us),
                            tags={"fn": "decinv", "leap": calendar.isleap(yi), "caller": caller})
        return post
    monitor.wrap(ctx, tu, "decimal_year_to_utc_datetime", mk_inv("datetime"), mon_name="time_utils.decimal_year_to_utc_datetime")
    monitor.wrap(ctx, tu, "decimal_year_to_utc_epoch", mk_inv("epoch"), mon_name="time_utils.decimal_year_to_utc_epoch")


# --------------------------------------------------------------------------------------------
# executors (also the replay entry points)


def ex_e2d(ctx, m, as_float=False):
    tu = _tu()
    ctx.call(tu.epoch_time_to_utc_datetime, float(m) if as_float else int(m))


def ex_d2e(ctx, us, aware=True):
    tu = _tu()
    d = EPOCH + datetime.timedelta(microseconds=int(us))
    if not aware:
        d = d.replace(tzinfo=None)
    ctx.call(tu.datetime_to_utc_epoch, d)


def ex_strp(ctx, s, format, kind="epoch"):
    tu = _tu()
    f = tu.strptime_to_utc_epoch if kind == "epoch" else tu.strptime_to_utc_datetime
    ctx.call(f, s, format)


def ex_decyear(ctx, us):
    ctx.call(_tu().decimal_year, EPOCH + datetime.timedelta(microseconds=int(us)))


def ex_decinv(ctx, y, kind="datetime"):
    tu = _tu()
    ctx.call(tu.decimal_year_to_utc_datetime if kind == "datetime" else tu.decimal_year_to_utc_epoch, y)


def ex_window(ctx, center_ms, w, label="win"):
    """All consecutive ms in [center-w, center+w]: round trips + strict monotonicity."""
    tu = _tu()
    prev_dt = prev_m2 = prev_dy = None
    lo = max(LO_MS, center_ms - w)
    hi = min(HI_MS - 1, center_ms + w)
    for m in range(lo, hi + 1):
        ok, d, tb = ctx.call(tu.epoch_time_to_utc_datetime, m)
        if not ok:
            continue
        ok2, m2, tb = ctx.call(tu.datetime_to_utc_epoch, d)
        ctx.mon("roundtrip:epoch->datetime->epoch", 1)
        if ok2 and m2 != m:
            ctx.violate("round trip epoch->datetime->epoch", {"exec": "window", "args": {"center_ms": m, "w": 0}},
                        observed=m2, expected=m, tags={"fn": "roundtrip", "off_by": int(m2) - m, "negative": m < 0})
        if prev_dt is not None and ok and not (d > prev_dt):
            ctx.violate("epoch->datetime not strictly increasing", {"exec": "window", "args": {"center_ms": m, "w": 1}},
                        observed=[str(prev_dt), str(d)], tags={"fn": "monotone-e2d"})
        if prev_m2 is not None and ok2 and not (m2 > prev_m2):
            ctx.violate("datetime->epoch not strictly increasing over consecutive ms",
                        {"exec": "window", "args": {"center_ms": m, "w": 1}}, observed=[prev_m2, m2], tags={"fn": "monotone-d2e"})
        prev_dt, prev_m2 = d, (m2 if ok2 else None)
        # decimal year strictly increasing over consecutive ms, inverse within 1 ms
        okd, dy, tb = ctx.call(tu.decimal_year, d)
        if okd:
            if prev_dy is not None and not (dy > prev_dy):
                ctx.violate("decimal_year not strictly increasing over consecutive ms",
                            {"exec": "window", "args": {"center_ms": m, "w": 1}}, observed=[prev_dy, dy],
                            tags={"fn": "monotone-decyear", "year_boundary": d.month == 1 and d.day == 1 and d.hour == 0})
            prev_dy = dy
            near_centre = abs(m - center_ms) <= 8          # every millisecond next to the boundary itself (the last ms of a year, of a day, ...)
            if ((m - lo) % 7 == 0 or near_centre) and dy < 2200.0:
                oki, back, tb = ctx.call(tu.decimal_year_to_utc_datetime, dy)
                ctx.mon("roundtrip:decimal_year->inverse", 1)
                if oki and abs(dt_to_us(back) - m * 1000) > 1000:
                    ctx.violate("decimal_year inverse does not recover the instant within 1 ms",
                                {"exec": "window", "args": {"center_ms": m, "w": 0}}, observed=str(back), expected=str(d),
                                tags={"fn": "decyear-roundtrip", "leap": calendar.isleap(d.year)})
                if (m - lo) % 49 == 0:
                    ctx.call(tu.decimal_year_to_utc_epoch, dy)
    n = hi - lo + 1
    ctx.count(n)
    return n


def ex_phase(ctx, base_ms, aware=True):
    """Every microsecond phase of [base, base+2ms): datetime->epoch within 1 ms, monotone; whole-ms exact both ways."""
    tu = _tu()
    prev = None
    for k in range(0, 2000):
        us = base_ms * 1000 + k
        d = EPOCH + datetime.timedelta(microseconds=us)
        if not aware:
            d = d.replace(tzinfo=None)
        elif k % 3 == 1:
            # UTC-aware through another tzinfo OBJECT than the datetime.timezone.utc singleton (a named zero-offset zone)
            d = d.replace(tzinfo=datetime.timezone(datetime.timedelta(0), "UTC"))
        ok, r, tb = ctx.call(tu.datetime_to_utc_epoch, d)
        if ok:
            if prev is not None and r < prev:
                ctx.violate("datetime->epoch not monotone over microsecond phases",
                            {"exec": "phase", "args": {"base_ms": base_ms, "aware": aware}}, observed=[prev, r], tags={"fn": "monotone-phase"})
            prev = r
            if k % 1000 == 0:
                ok2, back, tb = ctx.call(tu.epoch_time_to_utc_datetime, r)
                ctx.mon("roundtrip:datetime->epoch->datetime", 1)
                dd = d if aware else d.replace(tzinfo=UTC)
                if ok2 and back != dd:
                    ctx.violate("round trip datetime->epoch->datetime (whole ms)", {"exec": "phase", "args": {"base_ms": base_ms, "aware": aware}},
                                observed=str(back), expected=str(dd), tags={"fn": "roundtrip-d", "negative": base_ms < 0})
    ctx.count(2000)


def fmt_variants(m, r):
    """Formatted spellings of the whole-ms instant m, in the grammar the library documents."""
    d = ms_to_dt(m)
    msec = d.microsecond // 1000
    out = []
    for sep in (" ", "T"):
        base = d.strftime("%Y-%m-%d" + sep + "%H:%M:%S")
        base_fmt = "%Y-%m-%d" + sep + "%H:%M:%S"
        spell = []
        if msec == 0:
            spell.append((base, base_fmt))
            spell.append((base + "+00:00", base_fmt + "%z"))
        frac3 = "%03d" % msec
        fr = frac3.rstrip("0") or "0"
        for f in {frac3, frac3 + "000", fr, frac3 + "0"}:
            spell.append((base + "." + f, base_fmt + ".%f"))
        spell.append((base + "." + frac3 + "+00:00", base_fmt + ".%f%z"))
        for s, f in spell:
            if sep == " ":
                out.append((s, "%Y-%m-%d %H:%M:%S.%f"))   # default format: library sniffs the real one
            else:
                out.append((s, f))
    return out


def ex_strings(ctx, m):
    tu = _tu()
    r = None
    for s, f in fmt_variants(m, r):
        ok, e, tb = ctx.call(tu.strptime_to_utc_epoch, s, f)
        ok2, d, tb = ctx.call(tu.strptime_to_utc_datetime, s, f)
        ctx.mon("agreement:string/datetime/epoch", 1)
        if ok and e != m:
            ctx.violate("parsed string disagrees with the instant", {"exec": "strings", "args": {"m": m}},
                        observed={"s": s, "epoch": e}, expected=m, tags={"fn": "strings", "off_by": int(e) - m})
        ctx.count(2)


def ex_callers(ctx, ms_list):
    """Conversions performed by the library's own call sites (catalog datetimes, datetime filters, forecast epochs)."""
    import csep
    from csep.core.catalogs import CSEPCatalog
    ms_list = [int(x) for x in ms_list]
    ev = [(str(i), m, 1.0, 2.0, 5.0, 5.5) for i, m in enumerate(ms_list)]
    cat = CSEPCatalog(data=ev)
    ok, dts, tb = ctx.call(cat.get_datetimes)
    if ok:
        for m, d in zip(ms_list, dts):
            if LO_MS <= m <= HI_MS and d != ms_to_dt(m):
                ctx.violate("catalog datetime differs from stored epoch ms", {"exec": "callers", "args": {"ms_list": [m]}},
                            observed=str(d), expected=str(ms_to_dt(m)), tags={"fn": "get_datetimes"})
    d0, d1 = ms_to_dt(min(ms_list)), ms_to_dt(max(ms_list))
    from csep.core.forecasts import CatalogForecast
    ok, cf, tb = ctx.call(CatalogForecast, catalogs=[cat], start_time=d0, end_time=d1, n_cat=1)
    if ok:
        for nm, want in (("start_epoch", min(ms_list)), ("end_epoch", max(ms_list))):
            ok2, e, tb = ctx.call(getattr, cf, nm)
            if ok2 and LO_MS <= want <= HI_MS and e != want:
                ctx.violate("forecast %s differs from its datetime" % nm, {"exec": "callers", "args": {"ms_list": ms_list}},
                            observed=e, expected=want, tags={"fn": nm})
    ctx.call(cat.filter, "datetime >= %s" % d0.strftime("%Y-%m-%d %H:%M:%S.%f"), in_place=False)
    # history: the datetimes of a catalog are those of the events it holds NOW - asked once, events reduced / replaced / re-ordered in place,
    # asked again (catalogs with and without statistics bookkeeping; the second kind is what filter_spatial(in_place=False) hands out)
    for k, stats in enumerate((False, True)):
        if len(ms_list) < 2:
            break
        c2 = CSEPCatalog(data=ev, compute_stats=stats)
        ctx.call(c2.get_datetimes)
        how = (len(ms_list) + k + ms_list[0]) % 3
        if how == 0:
            thr = sorted(ms_list)[len(ms_list) // 2]
            ctx.call(c2.filter, "origin_time >= %d" % thr)
        elif how == 1:
            c2.catalog = c2.catalog[::-1].copy()
        else:
            c2.catalog["origin_time"][...] = c2.catalog["origin_time"][::-1].copy()
        now = [int(x) for x in c2.get_epoch_times()]
        ok, dts2, tb = ctx.call(c2.get_datetimes)
        ctx.mon("history:get_datetimes-after-in-place-change", 1)
        want2 = [ms_to_dt(m) for m in now]
        if all(LO_MS <= m <= HI_MS for m in now) and (not ok or list(dts2) != want2):
            ctx.violate("catalog datetimes are not those of the events the catalog holds (asked again after an in-place change)",
                        {"exec": "callers", "args": {"ms_list": ms_list}}, observed=repr(dts2)[:160] if not ok else [str(d) for d in list(dts2)[:4]],
                        expected=[str(d) for d in want2[:4]], tags={"fn": "get_datetimes", "compute_stats": stats, "change": ["filter", "assigned", "origin_time written"][how]})
    ctx.count(len(ms_list))


EXECUTORS = {"e2d": ex_e2d, "d2e": ex_d2e, "strp": ex_strp, "decyear": ex_decyear, "decinv": ex_decinv, "window": ex_window,
             "phase": ex_phase, "strings": ex_strings, "callers": ex_callers}


def boundaries(tier, rng):
    """List of (label, center_ms) boundary instants."""
    out = [("epoch0", 0)]
    for y in range(1900, 2201):
        out.append(("newyear", (datetime.datetime(y, 1, 1, tzinfo=UTC) - EPOCH) // MS))
    for y in (1900, 1904, 1970, 1972, 1999, 2000, 2001, 2024, 2100, 2196, 2199):
        out.append(("mar1", (datetime.datetime(y, 3, 1, tzinfo=UTC) - EPOCH) // MS))
        out.append(("feb29or28", (datetime.datetime(y, 2, 28, tzinfo=UTC) - EPOCH) // MS + 86400000))
    n = 200 if tier == "thorough" else 24
    for j in range(n):
        day = int(rng.integers(LO_MS // 86400000 + 1, HI_MS // 86400000 - 1))
        out.append(("day", day * 86400000))
        out.append(("second", day * 86400000 + int(rng.integers(1, 86399)) * 1000))
    return out


def run(ctx):
    install(ctx)
    thorough = ctx.tier == "thorough"
    W = 16000 if thorough else 200
    rng0 = numpy.random.default_rng([ctx.seed, 15])       # same boundary list in all shards
    bl = boundaries(ctx.tier, rng0)
    ci = 0
    for label, c in bl:
        ci += 1
        if not ctx.mine(ci):
            continue
        c = min(max(c, LO_MS), HI_MS - 1)
        n = ex_window(ctx, c, W, label)
        ctx.nt_bulk(digest(("win", c, W)), n)      # every instant of a boundary window is non-trivial (within 2 s)
        if ci % 40 == 0:
            ctx.sample({"window": label, "center_ms": c, "center": str(ms_to_dt(c)), "half_width_ms": W})
        if ci % 5 == 0:
            ex_phase(ctx, c - 1, aware=bool(ci % 2))
            ctx.nt_bulk(digest(("phase", c)), 2000)
            for m in (c - 1, c, c + 1, c + 500, c - 999):
                if LO_MS <= m < HI_MS:
                    ex_strings(ctx, m)
                    ctx.nt(digest(("str", m)))
    # uniform instants
    nu = (8000000 if thorough else 100000) // ctx.nshards
    r = ctx.rng("c15uniform")
    ms = r.integers(LO_MS, HI_MS, nu)
    tu = _tu()
    nt = 0
    for i, m in enumerate(ms.tolist()):
        ok, d, tb = ctx.call(tu.epoch_time_to_utc_datetime, m if i % 3 else float(m))
        if ok:
            ok2, m2, tb = ctx.call(tu.datetime_to_utc_epoch, d if i % 2 else d.replace(tzinfo=None))
            ctx.mon("roundtrip:epoch->datetime->epoch", 1)
            if ok2 and m2 != m:
                ctx.violate("round trip epoch->datetime->epoch", {"exec": "window", "args": {"center_ms": m, "w": 0}},
                            observed=m2, expected=m, tags={"fn": "roundtrip", "off_by": int(m2) - m, "negative": m < 0})
        if i % 25 == 0:
            ex_strings(ctx, m)
        if i % 50 == 0:
            ex_window(ctx, m, 1, "triple")
        if m % 1000 or m < 0:
            nt += 1
    ctx.count(nu)
    ctx.nt_bulk(digest(("uniform", ctx.seed, ctx.shard, ctx.nshards)), nt)
    ctx.sample({"uniform_instants": nu, "examples_ms": ms[:5], "examples": [str(ms_to_dt(x)) for x in ms[:3]]})
    # decimal years: direct inverse calls on a grid of decimal years
    for j in range((160000 if thorough else 2000) // ctx.nshards):
        y = float(r.uniform(1900, 2200))
        ex_decinv(ctx, y, "datetime" if j % 2 else "epoch")
        ctx.count(1)
    if thorough and ctx.shard == 0:
        from ..suite import run_repo_suite
        run_repo_suite(ctx, ["test_time_utilities.py", "test_catalog.py", "test_create_catalog.py", "test_forecast.py", "test_JmaCsvCatalog.py", "test_ingv_readers.py"])
    # library call sites
    for j in range(20):
        ex_callers(ctx, ms[j * 30:(j + 1) * 30])
