#!/usr/bin/env python3
"""Generate own mutants (single realistic edits) as patches against the current /repo HEAD: mutants/<check>_<name>.patch."""
import os, subprocess, tempfile, shutil, sys
V = os.path.dirname(os.path.dirname(os.path.abspath(__file__)))
M = [
 ("c02_no_ptol", "csep/utils/calc.py", "    dist = p - a0 + p_tol + a0_tol\n", "    dist = p - a0 + a0_tol\n"),
 ("c02_below_on_quotient_only", "csep/utils/calc.py", "    idx[numpy.asarray(dist < 0)] = -1\n", ""),
 ("c03_addat_firstwins", "csep/core/catalogs.py", "        idx = self._get_spatial_idx_or_raise()\n        numpy.add.at(event_counts, idx, 1)\n", "        idx = self._get_spatial_idx_or_raise()\n        event_counts[idx] += 1\n"),
 ("c03_no_minus1_check", "csep/core/catalogs.py", "                if mag_idx[idx] == -1:\n                    raise ValueError(\"at least one magnitude value outside of the valid region.\")\n", ""),
 ("c04_ge_is_gt", "csep/core/catalogs.py", "                     '>=': operator.ge,", "                     '>=': operator.gt,"),
 ("c04_spatial_no_negation", "csep/core/catalogs.py", "        filtered = self.catalog[~mask]\n", "        filtered = self.catalog[mask]\n"),
 ("c04_list_first_only", "csep/core/catalogs.py", "            for filt in filters:\n                name = filt.split(' ')[0]", "            for filt in filters[:1]:\n                name = filt.split(' ')[0]"),
 ("c05_drop_penalty", "csep/utils/stats.py", "    return sum_log_target_event_rates - discrete_penalty_term - n_fore", "    return sum_log_target_event_rates - n_fore"),
 ("c05_scale_inverted", "csep/core/poisson_evaluations.py", "        scale = n_obs / n_fore\n", "        scale = n_fore / n_obs\n"),
 ("c06_side_left", "csep/core/poisson_evaluations.py", "    pnts = numpy.searchsorted(sampling_weights, random_numbers, side='right')", "    pnts = numpy.searchsorted(sampling_weights, random_numbers, side='left')"),
 ("c06_quantile_strict", "csep/core/poisson_evaluations.py", "    qs = numpy.sum(simulated_ll <= obs_ll) / num_simulations", "    qs = numpy.sum(simulated_ll < obs_ll) / num_simulations"),
 ("c07_delta1_exclusive", "csep/core/poisson_evaluations.py", "    delta1 = 1.0 - scipy.stats.poisson.cdf(obs_cnt - epsilon, fore_cnt)", "    delta1 = 1.0 - scipy.stats.poisson.cdf(obs_cnt, fore_cnt)"),
 ("c07_nbd_p_swapped", "csep/core/binomial_evaluations.py", "    upsilon = 1.0 - ((var - mean) / var)", "    upsilon = ((var - mean) / var)"),
 ("c09_shortcircuit_ge", "csep/utils/stats.py", "    if val > ex[-1]:\n        return 0.0\n    if val < ex[0]:\n        return 1.0\n    return eyc", "    if val >= ex[-1]:\n        return 0.0\n    if val < ex[0]:\n        return 1.0\n    return eyc"),
 ("c10_drop_plus1", "csep/core/catalog_evaluations.py", "    obs_d_statistic = cumulative_square_diff(numpy.log10(obs_histogram + 1), numpy.log10(scaled_union_histogram + 1))\n\n    # score evaluation\n    delta_1, delta_2 = get_quantiles(test_distribution, obs_d_statistic)\n\n    # prepare result\n    result = CatalogMagnitudeTestResult(test_distribution=test_distribution,\n                              name='M-Test',", "    obs_d_statistic = cumulative_square_diff(numpy.log10(obs_histogram + 1), numpy.log10(scaled_union_histogram))\n\n    # score evaluation\n    delta_1, delta_2 = get_quantiles(test_distribution, obs_d_statistic)\n\n    # prepare result\n    result = CatalogMagnitudeTestResult(test_distribution=test_distribution,\n                              name='M-Test',"),
 ("c10_norm_by_nbar", "csep/utils/calc.py", "    norm_apprx_rate_density = apprx_rate_density / numpy.sum(apprx_rate_density)", "    norm_apprx_rate_density = apprx_rate_density / expected_cond_count / 1.0000001"),
 ("c12_gap_off_by_one", "csep/core/catalogs.py", "                        for id in range(num_empty_catalogs):", "                        for id in range(num_empty_catalogs - 1):"),
 ("c12_synth_id_shift", "csep/core/catalogs.py", "                            yield cls(data=[], catalog_id=catalog_id - num_empty_catalogs + id, **kwargs)", "                            yield cls(data=[], catalog_id=catalog_id - num_empty_catalogs + id + 1, **kwargs)"),
 ("c13_idx_not_reset", "csep/core/forecasts.py", "                self.n_cat = self._idx\n                self._idx = 0\n", "                self.n_cat = self._idx\n"),
 ("c13_rates_mean_offbyone", "csep/core/forecasts.py", "            data = data / self.n_cat\n", "            data = data / (i + 2)\n"),
 ("c16_brier_first_dim", "csep/core/brier_evaluations.py", "    for n_dim in observations.shape:\n        brier /= n_dim", "    for n_dim in observations.shape[:1]:\n        brier /= n_dim"),
 ("c16_binary_sign", "csep/core/binomial_evaluations.py", "    second_term = -forecast[~active]", "    second_term = forecast[~active]"),
 ("c17_east_inclusive", "csep/core/regions.py", "                                    numpy.logical_and(lon < self.bounds[:, 2], lat < self.bounds[:, 3]))", "                                    numpy.logical_and(lon <= self.bounds[:, 2], lat < self.bounds[:, 3]))"),
 ("c17_threshold_ge", "csep/core/regions.py", "    if num_eqs > threshold and len(quadk) < zoom:", "    if num_eqs >= threshold and len(quadk) < zoom:"),
 ("c17_zoom_le", "csep/core/regions.py", "    if num_eqs > threshold and len(quadk) < zoom:", "    if num_eqs > threshold and len(quadk) <= zoom:"),
 ("c01_mask_polarity", "csep/core/regions.py", "                    if self.poly_mask[i] == 1:\n                        a[idy[i], idx[i], 0] = 0", "                    if self.poly_mask[i] == 0:\n                        a[idy[i], idx[i], 0] = 0"),
 ("c01_masked_no_outside", "csep/core/regions.py", "        mask[bad_idx] = True\n", ""),
 ("c14_from_dict_no_id", "csep/core/catalogs.py", "        exclude = ['_catalog', 'region']", "        exclude = ['_catalog', 'region', 'catalog_id']"),
 ("c15_leap_365", "csep/utils/time_utils.py", "    num_days_per_year = 365.0\n    if calendar.isleap(test_date.year):\n        num_days_per_year = 366.0", "    num_days_per_year = 365.0"),
 ("c18_quantile_str", "csep/models.py", "            'quantile': self.quantile,", "            'quantile': str(self.quantile),"),
 ("c19_ndk_latlon_swap", "csep/utils/readers.py", "                   record['hypo_lat'],\n                   record['hypo_lng'],", "                   record['hypo_lng'],\n                   record['hypo_lat'],"),
 ("c19_zmap_depth_mag_swap", "csep/utils/readers.py", "            line[ColumnIndex.Depth.value],\n            line[ColumnIndex.Magnitude.value],", "            line[ColumnIndex.Magnitude.value],\n            line[ColumnIndex.Depth.value],"),
 ("c11_flag_polarity_loader", "csep/core/forecasts.py", "        poly_mask = all_poly_mask[sorted_idx]", "        poly_mask = 1 - all_poly_mask[sorted_idx]"),
 ("c08_n2_minus_n1", "csep/core/poisson_evaluations.py", "    information_gain = (numpy.sum(X1 - X2) - (N1 - N2)) / N\n\n    # Compute variance of (X1-X2) using Equation (18)  of Rhoades et al. 2011\n    first_term = (numpy.sum(numpy.power((X1 - X2), 2))) / (N - 1)", "    information_gain = (numpy.sum(X1 - X2) - (N2 - N1)) / N\n\n    # Compute variance of (X1-X2) using Equation (18)  of Rhoades et al. 2011\n    first_term = (numpy.sum(numpy.power((X1 - X2), 2))) / (N - 1)"),
]
tmp = tempfile.mkdtemp(prefix="mk-mut.", dir="/var/tmp")
try:
    subprocess.run("git -C /repo archive HEAD | tar -x -C %s" % tmp, shell=True, check=True)
    subprocess.run("git init -q . && git add -A >/dev/null 2>&1 && git commit -qm base >/dev/null", shell=True, cwd=tmp, check=True)
    ok = 0
    for name, f, old, new in M:
        p = os.path.join(tmp, f)
        s = open(p).read()
        if s.count(old) < 1:
            print("SKIP (pattern not found):", name)
            continue
        open(p, "w").write(s.replace(old, new, 1))
        d = subprocess.run("git diff", shell=True, cwd=tmp, capture_output=True, text=True).stdout
        subprocess.run("git checkout -q -- .", shell=True, cwd=tmp)
        # must still compile
        open(os.path.join(V, "mutants", name + ".patch"), "w").write(d)
        ok += 1
    print("written", ok, "mutants")
finally:
    shutil.rmtree(tmp, ignore_errors=True)
