"""C12 - catalog-forecast CSV files decode to exactly the catalogs they encode."""
import csv
import datetime
import itertools
import os
import tempfile

import numpy

from .. import witness
from ..core import digest, scratch_dir

UTC = datetime.timezone.utc
EPOCH = datetime.datetime(1970, 1, 1, tzinfo=UTC)

META = {
    "title": "Catalog-forecast files decode to exactly the catalogs they encode",
    "level": "exploration",
    "rule": ("encodings = (sequence of catalogs, placeholder/omitted choice per empty non-final catalog, header yes/no, time spelling in "
             "{all fractional, all whole-second, mixed}) written by a csv writer model and decoded by CSEPCatalog.load_ascii_catalogs, "
             "csep.load_stochastic_event_sets and csep.load_catalog_forecast (store on/off, two passes). Exhaustive: all n<=N catalogs of "
             "0..2 events (N=4 quick, 5 thorough); random: up to hundreds of catalogs, gaps to 50, leading gaps, consecutive placeholders, "
             "ids with commas/quotes/spaces, negative coordinates; rejection: adjacent catalog blocks swapped (decreasing ids). "
             "Non-trivial: the encoding holds an empty catalog or n >= 2; distinct = digest(file text)."),
    "assumptions": ["python csv.writer is the writer model (the library's own writer uses csv.DictWriter)", "origin times compared as integer ms from the written string"],
    "deciding": ["stream:decoded-vs-encoded"],
    "exhaustive_tiers": {"quick": {"catalogs n<=4 x 0..2 events x placeholder choices x header x 3 time spellings": True},
                         "thorough": {"catalogs n<=5 x 0..2 events x placeholder choices x header x 3 time spellings": True}},
}
META["added"] = 'Added: files with 300 catalogs (ids beyond 256) in the quick tier. writer-model witness (sys.monitoring branch pairs), zero-valued fields, decreasing ids where the offending row is a placeholder row (with / without header). fractions with trailing zeros left out, LF / CRLF line ends and missing final terminator. exponent-notation fields incl. the first data row; the same file path re-used by every case. blank event ids.'
MANIFEST = {
    "technique": "boundary recorder on the three loaders, exactly-once/ordering stream checker against the writer model; sys.monitoring LINE witness on the decoder generator recording branch transitions; exhaustive small encodings + random long files + rejection cases",
    "level_text": "All encodings of n<=4 (quick) / n<=5 (thorough) catalogs with 0..2 events, every placeholder/omitted choice, with/without header and three time spellings are enumerated completely and decoded through all three loaders; the yielded stream must be ids 0..n-1 in order with bit-identical fields; random files with long gaps and hostile ids; files with decreasing ids must be rejected. The witness lists decoder branch pairs actually executed.",
    "level_note": "Trusted: csv writer model, integer-ms time arithmetic. Space of longer files is sampled.",
}
WATCHDOG_S = {"quick": 900, "thorough": 5400}
HEADER = ["lon", "lat", "mag", "time_string", "depth", "catalog_id", "event_id"]
BRANCH_LABELS = {
    "if is_header_line(line):": "header-test",
    "prev_id = 0": "first-line",
    "for id in range(catalog_id):": "leading-gap",
    "events.append(temp_event)": "same-id-append",
    "elif catalog_id == prev_id + 1:": "test-next",
    "elif catalog_id > prev_id + 1:": "test-gap",
    "num_empty_catalogs = catalog_id - prev_id - 1": "gap",
    "raise ValueError(": "decrease",
    "cat = cls(data=events, catalog_id=prev_id, **kwargs)": "final",
}


def shards(tier):
    return 4 if tier == "quick" else 16


def fmt_time(ms, frac):
    d = EPOCH + datetime.timedelta(milliseconds=int(ms))
    base = d.strftime("%Y-%m-%dT%H:%M:%S")
    if frac == "short":
        # the same instant with the trailing zeros of the fraction left out (.5, .25, .125 ...), at least one digit
        return base + "." + (("%06d" % d.microsecond).rstrip("0") or "0")
    if frac:
        return base + ".%06d" % d.microsecond
    return base


def write_file(path, cats, placeholders, header, spelling):
    """cats: list of list of events (id, ms, lat, lon, depth, mag). placeholders[i] True -> explicit row for empty catalog i.
    spelling: 'frac' | 'whole' | 'mixed'. Returns the expected decoded sequence."""
    expected = []
    k = 0
    with open(path, "w", newline="") as f:
        w = csv.writer(f, delimiter=",")
        if header:
            w.writerow(HEADER)
        for cid, evs in enumerate(cats):
            exp = []
            if not evs:
                if placeholders[cid] or cid == len(cats) - 1:
                    w.writerow(["", "", "", "", "", cid, ""])
            for (eid, ms, lat, lon, depth, mag) in evs:
                if spelling == "frac":
                    fr = True
                elif spelling == "short":
                    fr = "short"
                elif spelling == "whole":
                    fr = False
                else:
                    fr = bool(k % 2)
                k += 1
                ms_w = ms if fr else (ms // 1000) * 1000
                w.writerow([repr(lon), repr(lat), repr(mag), fmt_time(ms_w, fr), repr(depth), cid, eid])
                exp.append((eid, ms_w, lat, lon, depth, mag))
            expected.append(exp)
    return expected


def decoded(cat):
    out = []
    for row in cat.catalog.tolist():
        eid = row[0].decode("utf-8") if isinstance(row[0], bytes) else row[0]
        out.append((eid, int(row[1]), row[2], row[3], row[4], row[5]))
    return cat.catalog_id, out


def compare(ctx, rc, loader, stream, expected, tags):
    ctx.mon("stream:decoded-vs-encoded", 1)
    ids = [s[0] for s in stream]
    if ids != list(range(len(expected))):
        ctx.violate("decoded catalog ids are not 0..n-1 exactly once in order", rc, observed=ids, expected=list(range(len(expected))),
                    tags=dict(tags, loader=loader, clause="ids"))
        return False
    for (cid, got), exp in zip(stream, expected):
        if got != exp:
            ctx.violate("decoded catalog does not contain exactly its own events with the written fields", rc,
                        observed={"catalog": cid, "events": got[:4]}, expected={"events": exp[:4]}, tags=dict(tags, loader=loader, clause="events"))
            return False
    return True


def run_file(ctx, path, expected, rc, tags, wit=None, full=True):
    import csep
    from csep.core.catalogs import CSEPCatalog
    if wit is not None:
        wit.reset_sequence()
    ok, res, tb = ctx.call(lambda: [decoded(c) for c in CSEPCatalog.load_ascii_catalogs(path)])
    if not ok:
        ctx.violate("loading a well-formed file raised", rc, observed=repr(res), tb=tb, tags=dict(tags, loader="load_ascii_catalogs", exc=type(res).__name__))
        return
    good = compare(ctx, rc, "load_ascii_catalogs", res, expected, tags)
    if not full:
        return
    ok, res, tb = ctx.call(lambda: [decoded(c) for c in csep.load_stochastic_event_sets(path)])
    if not ok:
        ctx.violate("loading a well-formed file raised", rc, observed=repr(res), tb=tb, tags=dict(tags, loader="load_stochastic_event_sets"))
    else:
        compare(ctx, rc, "load_stochastic_event_sets", res, expected, tags)
    for store in (True, False):
        ok, fc, tb = ctx.call(csep.load_catalog_forecast, path, store=store)
        if not ok:
            ctx.violate("load_catalog_forecast raised", rc, observed=repr(fc), tb=tb, tags=dict(tags, loader="load_catalog_forecast"))
            continue
        for p in range(2):
            ok, res, tb = ctx.call(lambda: [decoded(c) for c in fc])
            if not ok:
                ctx.violate("iterating a loaded catalog forecast raised", rc, observed=repr(res), tb=tb,
                            tags=dict(tags, loader="load_catalog_forecast", store=store, pass_=p))
                break
            if not compare(ctx, rc, "load_catalog_forecast(store=%s) pass %d" % (store, p + 1), res, expected, tags):
                break


def mk_event(r, i, hostile_id=False):
    ms = int(r.integers(-2000000000000, 7000000000000))
    ms = ms - ms % 1000 + int(r.choice([0, 0, 1, 250, 999, 500, 120, int(r.integers(0, 1000))]))
    if hostile_id:
        eid = str(r.choice(['a,b', 'say "hi"', " lead", "trail ", "x;y", "'q'", "1234", "id with spaces", "ci,12\"3"])) + str(i)
    elif r.uniform() < 0.06:
        eid = ""                  # an event without an id (blank id column) is still an event
    else:
        eid = "ev%d" % i
    lat = float(numpy.round(r.uniform(-90, 90), int(r.integers(0, 6))))
    lon = float(numpy.round(r.uniform(-180, 180), int(r.integers(0, 6))))
    dep, mag = float(numpy.round(r.uniform(0, 700), 2)), float(numpy.round(r.uniform(2, 9), 2))
    z = r.uniform()
    if z < 0.15:
        # zero-valued fields are legitimate values (epoch instant, equator, prime meridian, surface, magnitude 0)
        k = int(z / 0.03)
        ms, lat, lon, dep, mag = (0 if k == 0 else ms), (0.0 if k == 1 else lat), (0.0 if k == 2 else lon), (0.0 if k == 3 else dep), (0.0 if k == 4 else mag)
    elif z < 0.27 and z >= 0.22:
        # the ends of the coordinate ranges: the antimeridian written either way, the poles
        k = int((z - 0.22) / 0.0125)
        lon, lat = (180.0 if k == 0 else (-180.0 if k == 1 else lon)), (90.0 if k == 2 else (-90.0 if k == 3 else lat))
    elif z < 0.22:
        # values whose shortest text form uses exponent notation (within 1e-4 of the prime meridian / equator / surface)
        k = int((z - 0.15) / 0.0234)
        lon, lat, dep = (float(r.choice([5e-05, -2.5e-07])) if k == 0 else lon), (1e-05 if k == 1 else lat), (3e-06 if k == 2 else dep)
    return (eid, ms, lat, lon, dep, mag)


def ex_encoding(ctx, cats, placeholders, header, spelling, full=True, line_end="crlf"):
    cats = [[tuple(e) for e in c] for c in cats]
    tmp = scratch_dir("c12-")
    path = os.path.join(tmp, "forecast.csv")
    try:
        expected = write_file(path, cats, placeholders, header, spelling)
        if line_end != "crlf":
            # the same records with Unix line ends and / or without the final line terminator (csv.writer's default is CRLF after every row)
            with open(path, "rb") as f:
                raw = f.read()
            if "lf" in line_end:
                raw = raw.replace(b"\r\n", b"\n")
            if "nofinal" in line_end:
                raw = raw.rstrip(b"\r\n")
            with open(path, "wb") as f:
                f.write(raw)
        rc = {"exec": "encoding", "args": {"cats": cats, "placeholders": placeholders, "header": header, "spelling": spelling, "line_end": line_end}}
        ctx.current_case = rc
        tags = {"header": header, "spelling": spelling, "line_end": line_end, "has_empty": any(len(c) == 0 for c in cats),
                "has_placeholder": any(p and not c for p, c in zip(placeholders, cats)), "n": min(len(cats), 6)}
        run_file(ctx, path, expected, rc, tags, wit=_WIT[0], full=full)
        ctx.count(1)
        if len(cats) >= 2 or tags["has_empty"]:
            with open(path, "rb") as f:
                ctx.nt(digest(f.read()))
    finally:
        try:
            os.remove(path)
            os.rmdir(tmp)
        except OSError:
            pass


def ex_reject(ctx, cats, swap_at, mode="swap", header=False):
    """Decreasing ids must be rejected (ValueError). mode 'swap': two adjacent non-empty catalog blocks swapped; 'placeholder-back': a well-formed
    file in which, after the block of catalog swap_at+1, a placeholder row for the smaller id swap_at (or 0) follows."""
    from csep.core.catalogs import CSEPCatalog
    cats = [[tuple(e) for e in c] for c in cats]
    tmp = scratch_dir("c12r-")
    path = os.path.join(tmp, "forecast.csv")
    try:
        order = list(range(len(cats)))
        if mode == "swap":
            order[swap_at], order[swap_at + 1] = order[swap_at + 1], order[swap_at]
        with open(path, "w", newline="") as f:
            w = csv.writer(f)
            if header:
                w.writerow(HEADER)
            for cid in order:
                for (eid, ms, lat, lon, depth, mag) in cats[cid]:
                    w.writerow([repr(lon), repr(lat), repr(mag), fmt_time(ms, True), repr(depth), cid, eid])
                if mode != "swap" and cid == swap_at + 1:
                    w.writerow(["", "", "", "", "", swap_at if mode == "placeholder-back" else 0, ""])
        rc = {"exec": "reject", "args": {"cats": cats, "swap_at": swap_at, "mode": mode, "header": header}}
        ctx.current_case = rc
        ok, res, tb = ctx.call(lambda: [decoded(c) for c in CSEPCatalog.load_ascii_catalogs(path)])
        ctx.mon("stream:rejection", 1)
        ctx.count(1)
        if ok:
            ctx.violate("file with decreasing catalog ids was not rejected", rc, observed=[s[0] for s in res], expected="ValueError",
                        tags={"clause": "rejection", "mode": mode, "header": header})
        elif not isinstance(res, ValueError):
            ctx.violate("file with decreasing catalog ids raised something other than the documented rejection", rc, observed=repr(res),
                        tags={"clause": "rejection", "exc": type(res).__name__})
        ctx.nt(digest(("rej", cats, swap_at)))
    finally:
        try:
            os.remove(path)
            os.rmdir(tmp)
        except OSError:
            pass


EXECUTORS = {"encoding": ex_encoding, "reject": ex_reject}
_WIT = [None]


def install(ctx):
    from ..core import set_process_time_zone
    set_process_time_zone(ctx)


def run(ctx):
    install(ctx)
    from csep.core.catalogs import CSEPCatalog
    thorough = ctx.tier == "thorough"
    N = 5 if thorough else 4
    wit = witness.LineWitness(CSEPCatalog.load_ascii_catalogs, BRANCH_LABELS, "CSEPCatalog.load_ascii_catalogs")
    r0 = numpy.random.default_rng([ctx.seed, 12])
    pool = [mk_event(r0, i) for i in range(40)]
    ci = 0
    with wit:
        _WIT[0] = wit
        for n in range(1, N + 1):
            for sizes in itertools.product(range(3), repeat=n):
                empties = [i for i, s in enumerate(sizes) if s == 0 and i != n - 1]
                for mask in itertools.product((False, True), repeat=len(empties)):
                    ci += 1
                    if not ctx.mine(ci):
                        continue
                    ph = [False] * n
                    for i, m in zip(empties, mask):
                        ph[i] = m
                    k = 0
                    cats = []
                    for s in sizes:
                        cats.append([pool[(k + j) % len(pool)] for j in range(s)])
                        k += s
                    for header in (False, True):
                        for spelling in ("frac", "whole", "mixed"):
                            ex_encoding(ctx, cats, ph, header, spelling, full=(n <= 3 or spelling == "frac"),
                                        line_end=["crlf", "lf-nofinal", "lf", "crlf-nofinal"][(ci + header) % 4])
                    if ci % 211 == 0:
                        ctx.sample({"sizes": sizes, "placeholders": ph, "headers": "both", "spellings": ["frac", "whole", "mixed"]})
        _WIT[0] = None
    ctx.extra["witness"] = wit.summary()
    if not wit.hit:
        ctx.inconc("decoder witness observed no line events")
    # random long files (witness off: cost)
    nr = (75000 if thorough else 240) // ctx.nshards
    for j in range(nr):
        r = ctx.rng("c12r", j)
        n = int(r.choice([1, 2, 5, 30, 200, 600] if thorough else [1, 2, 5, 30, 120, 300]))       # ids beyond 256 in both tiers
        cats = []
        gapmode = j % 3
        for i in range(n):
            if gapmode == 0:
                s = int(r.choice([0, 0, 0, 1, 2, 5]))
            elif gapmode == 1:
                s = 0 if (i % 53) else int(r.integers(1, 4))       # gaps up to ~50, leading gap
            else:
                s = int(r.integers(0, 4))
            cats.append([mk_event(r, i * 10 + q, hostile_id=(j % 4 == 0)) for q in range(s)])
        ph = [bool(r.uniform() < 0.4) for _ in range(n)]
        if j % 4 == 1:
            for c_ in cats:
                if c_:
                    e0 = c_[0]                     # the very first data row of the file: longitude written in exponent notation
                    c_[0] = (e0[0], e0[1], e0[2], float(r.choice([5e-05, -7.5e-06])), e0[4], e0[5])
                    break
        ex_encoding(ctx, cats, ph, bool(j % 2), ["frac", "whole", "mixed", "short"][j % 4], full=(n <= 30),
                    line_end=["crlf", "lf", "crlf-nofinal", "lf-nofinal"][(j // 4) % 4])
        if j % 60 == 0:
            ctx.sample({"random_file": True, "n_catalogs": n, "sizes_head": [len(c) for c in cats[:12]], "placeholders_head": ph[:12]})
    # rejection
    for j in range((9000 if thorough else 60) // ctx.nshards):
        r = ctx.rng("c12rej", j)
        n = int(r.integers(2, 7))
        cats = [[mk_event(r, i * 10 + q) for q in range(int(r.integers(1, 3)))] for i in range(n)]
        ex_reject(ctx, cats, int(r.integers(0, n - 1)), mode=["swap", "placeholder-back", "placeholder-zero"][j % 3], header=bool(j % 2))
