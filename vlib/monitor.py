"""Contracts on the real functions, attached from outside (no source hooks).

``wrap(ctx, module, name, post)`` replaces the function object by a recording wrapper *in every
csep module that holds a reference to it* (``from x import f`` binds the original before we
decorate, so decorating only the defining module would be bypassed - the per-caller evaluation
counts in the ledger show whether a call site was actually observed).

post(ctx, args, kwargs, result, exc, caller) is evaluated after every call in the calling thread
(pyCSEP is single threaded: every return is a quiescent point). A post-condition reports through
ctx.violate(); it never raises into library code.  Monitors are not re-entered while a
post-condition itself calls library code.
"""
import functools
import sys
import threading

_state = threading.local()
_installed = []   # (owner, attr, original)


def _in_monitor():
    return getattr(_state, "depth", 0) > 0


class suspended:
    """Context manager: library calls made by oracles are not monitored / counted."""

    def __enter__(self):
        _state.depth = getattr(_state, "depth", 0) + 1

    def __exit__(self, *a):
        _state.depth -= 1


def _make_wrapper(ctx, orig, post, mon_name, pre=None):
    @functools.wraps(orig)
    def wrapper(*args, **kwargs):
        if _in_monitor():
            return orig(*args, **kwargs)
        try:
            caller = sys._getframe(1).f_globals.get("__name__", "?")
        except Exception:  # noqa
            caller = "?"
        snap = None
        if pre is not None:
            with suspended():
                snap = pre(ctx, args, kwargs)
        exc = None
        result = None
        try:
            result = orig(*args, **kwargs)
            return result
        except BaseException as e:  # noqa
            exc = e
            raise
        finally:
            ctx.mon(mon_name, 1, caller)
            with suspended():
                try:
                    if pre is not None:
                        post(ctx, args, kwargs, result, exc, caller, snap)
                    else:
                        post(ctx, args, kwargs, result, exc, caller)
                except Exception as e:  # harness fault: make it loud, never silent
                    import traceback
                    ctx.inconc("monitor %s raised %r: %s" % (mon_name, e, traceback.format_exc(limit=4)))
    wrapper.__wrapped_by_verif__ = True
    wrapper.__verif_orig__ = orig
    return wrapper


def csep_modules():
    return [m for n, m in list(sys.modules.items())
            if m is not None and (n == "csep" or n.startswith("csep."))]


def wrap(ctx, module, name, post, mon_name=None, pre=None):
    """Wrap module-level function `module.name` and rebind it in every csep module."""
    orig = getattr(module, name)
    if getattr(orig, "__wrapped_by_verif__", False):
        orig = orig.__verif_orig__
    mon_name = mon_name or "%s.%s" % (module.__name__.replace("csep.", ""), name)
    w = _make_wrapper(ctx, orig, post, mon_name, pre)
    n = 0
    for m in csep_modules():
        for attr, val in list(vars(m).items()):
            if val is orig:
                _installed.append((m, attr, orig))
                setattr(m, attr, w)
                n += 1
    ctx.monitors.setdefault(mon_name, {"evals": 0, "by_caller": {}})
    ctx.extra.setdefault("rebound_sites", {})[mon_name] = n
    return w


def wrap_method(ctx, cls, name, post, mon_name=None, pre=None):
    """Wrap a method (plain, classmethod or staticmethod) on a class, in place."""
    raw = cls.__dict__[name]
    mon_name = mon_name or "%s.%s" % (cls.__name__, name)
    if isinstance(raw, classmethod):
        orig = raw.__func__
        w = classmethod(_make_wrapper(ctx, orig, post, mon_name, pre))
    elif isinstance(raw, staticmethod):
        orig = raw.__func__
        w = staticmethod(_make_wrapper(ctx, orig, post, mon_name, pre))
    else:
        orig = raw
        w = _make_wrapper(ctx, orig, post, mon_name, pre)
    _installed.append((cls, name, raw))
    setattr(cls, name, w)
    ctx.monitors.setdefault(mon_name, {"evals": 0, "by_caller": {}})
    return w


def uninstall_all():
    while _installed:
        owner, attr, orig = _installed.pop()
        setattr(owner, attr, orig)
