"""C03 - gridding a catalog counts every event exactly once, in its own cell and bin."""
import numpy

from .. import fixtures, monitor
from ..core import digest
from ..oracles import binning, lattice
from . import c01, c17

META = {
    "title": "Gridding counts every event exactly once",
    "level": "exploration",
    "rule": ("(catalog, space-magnitude region) pairs: regions = C01 decimal lattices with holes/flags and quadtree grids "
             "(single-resolution 1..4, from_catalog, prefix-free quadkey sets); magnitude grids explicit (mag_bins=) and region-bound; "
             "catalogs of 0..300 events placed on cell corners/edges (exact edge floats and +k ulps), interiors, with duplicates, magnitudes on bin "
             "edges / interior / above the last edge, shuffled; hostile mixes with k events outside the region and/or below the first magnitude "
             "edge at the start, middle or end. Non-trivial: >= 2 events in one cell, or an event on an edge, or an out-of-range event; "
             "distinct = digest(catalog, region)."),
    "assumptions": ["reference cell by exact comparison (C01 lattice model / quadtree bounds); events inside a round-off band are not generated (C01/C02 decide those)",
                    "C02 contract on bin1d_vec installed underneath"],
    "deciding": ["post:spatial_magnitude_counts", "post:spatial_counts", "post:magnitude_counts", "identity:marginals", "reject:out-of-range", "history:rebind-region"],
}
META["added"] = "Added: events in holes / flagged-out cells as the outside event, quadtree grids from shuffled and coarse-first listings and the grid's north edge, region re-binding and in-place re-ordering histories on one catalog object, a competing region-bound magnitude grid next to an explicit mag_bins, magnitude grids built with numpy.arange / start+k*step / linspace (round-off edges) with events on the nominal decimal edges. outside events leaving the box in exactly one coordinate or on its north / east edge. single-precision magnitude columns. 70000 events in one cell and bin."
MANIFEST = {
    "technique": "runtime post-conditions (conservation, immutability) on the real catalog gridding methods at every call + brute-force reference gridding on generated catalogs incl. hostile out-of-range mixes; marginal identities and filter-equivalence checked per case",
    "level_text": "Each generated catalog/region pair is gridded by the real methods; the count array is compared entry by entry with a brute-force reference, totals and both marginals are exact integer identities, occupancy equals [count>0], each magnitude bin equals the size of the equivalent magnitude-range filter, and catalogs containing events outside the region or below the first magnitude edge must be rejected (space-magnitude) or left uncounted (magnitude histogram). Every call of the four gridding methods is also checked for conservation and for not mutating the catalog.",
    "level_note": "Trusted: exact comparisons, C01 lattice model, quadtree bounds. Catalog/region space sampled.",
}
WATCHDOG_S = {"quick": 900, "thorough": 5400}


def shards(tier):
    return 4 if tier == "quick" else 16


def install(ctx):
    import csep.utils.calc as calc
    import csep.core.regions  # noqa
    import csep.core.catalogs as cats
    import csep.core.forecasts  # noqa
    binning.install(ctx, calc, "C02")

    def pre(ctx, args, kwargs):
        self = args[0]
        return (self.catalog.tobytes() if self.catalog is not None else None, self.event_count)

    def mk(name, conserve):
        def post(ctx, args, kwargs, result, exc, caller, snap):
            self = args[0]
            before, n = snap
            if self.catalog is not None and before is not None and self.catalog.tobytes() != before:
                ctx.violate("gridding mutated the catalog", {"exec": "noop", "args": {}}, observed=name, tags={"api": name, "clause": "mutated"})
            if exc is None and conserve and result is not None:
                r = numpy.asarray(result if not isinstance(result, tuple) else result[1], dtype=float)
                tot = float(r.sum())
                if name != "magnitude_counts" and tot != n:
                    ctx.violate("total of the count array != number of events", {"exec": "noop", "args": {}}, observed=tot, expected=n,
                                tags={"api": name, "clause": "conservation", "caller": caller})
                if numpy.any(r < 0) or numpy.any(r != numpy.floor(r)):
                    ctx.violate("count array holds negative or fractional values", {"exec": "noop", "args": {}}, tags={"api": name})
        return post
    for name, conserve in (("spatial_counts", True), ("spatial_magnitude_counts", True), ("magnitude_counts", True), ("spatial_event_probability", False)):
        monitor.wrap_method(ctx, cats.AbstractBaseCatalog, name, mk(name, conserve), mon_name="post:" + name, pre=pre)


def place_events(rng, model_edges_x, model_edges_y, cells_ij, n, dh):
    """Events in given lattice cells: exact lower-left corner, on west/south edge, +k ulps above an edge, interior."""
    ex, ey = model_edges_x, model_edges_y
    k = rng.integers(0, len(cells_ij), n)
    ij = numpy.asarray(cells_ij)[k]
    mode = rng.integers(0, 5, n)
    fx = rng.uniform(0.2, 0.8, n)
    fy = rng.uniform(0.2, 0.8, n)
    x0, y0 = ex[ij[:, 0]], ey[ij[:, 1]]
    lon = numpy.where(mode <= 1, x0, x0 + fx * dh)
    lat = numpy.where((mode == 0) | (mode == 2), y0, y0 + fy * dh)
    up = mode == 3
    lon = numpy.where(up, binning.ulp_shift(x0, rng.integers(1, 4, n)), lon)
    return lon, lat, ij


def make_bins(mag):
    """(edges handed to the library, nominal decimal edges). mag[3] (optional) chooses how the edges are computed: the nearest doubles of
    the decimal values, or the usual user idioms numpy.arange / start+k*step / numpy.linspace whose edges carry accumulated round-off."""
    nominal = fixtures.mag_bins(mag[0], mag[1], mag[2])
    kind = mag[3] if len(mag) > 3 else "decimal"
    s, h, n = float(mag[0]), float(mag[1]), int(mag[2])
    if kind == "arange":
        bins = numpy.arange(s, s + (n - 0.5) * h, h)
    elif kind == "mul":
        bins = s + numpy.arange(n) * h
    elif kind == "linspace":
        bins = numpy.linspace(s, s + (n - 1) * h, n)
    else:
        bins = nominal
    if bins.size != nominal.size:
        bins = nominal
    return bins, nominal


OTHER_BOUND = [("3.0", "0.5", 3), ("4.95", "0.1", 41), ("6.05", "0.3", 7)]


def place_mags(rng, bins, n, above=True):
    k = rng.integers(0, bins.size, n)
    h = bins[1] - bins[0] if bins.size > 1 else 0.1
    mode = rng.integers(0, 4, n)
    m = numpy.where(mode == 0, bins[k], bins[k] + rng.uniform(0.2, 0.8, n) * h)
    m = numpy.where(mode == 3, binning.ulp_shift(bins[k], rng.integers(1, 4, n)), m)
    if above:
        far = rng.uniform(size=n) < 0.08
        m = numpy.where(far, bins[-1] + rng.uniform(0.5, 3.0, n), m)
        k = numpy.where(far, bins.size - 1, k)
    return m, k


def make_cartesian(r):
    case = c01.gen_lattice(r, force=int(r.integers(3, 8)))
    case["ctor"] = "ctor" if case["flags"] is not None else "from_origins"
    reg, model, origins = c01.build_region(case)
    active = [tuple(c) for c, f in zip(case["cells"], case["flags"] or [1] * len(case["cells"])) if f == 1]
    return case, reg, model, active


def ex_cartesian(ctx, lat_case, mag, n, hostile, seed):
    import csep
    rng = numpy.random.default_rng([seed, 3])
    reg, model, origins = c01.build_region(lat_case)
    flags = lat_case.get("flags") or [1] * len(lat_case["cells"])
    active = [tuple(c) for c, f in zip(lat_case["cells"], flags) if f == 1]
    bins, nominal = make_bins(mag)
    explicit = bool(seed % 2)
    bound_other = explicit and seed % 4 == 1
    if not explicit:
        reg.magnitudes = bins
    elif bound_other:
        # the region carries ANOTHER magnitude grid; the explicitly supplied one must win
        ob = OTHER_BOUND[seed % 3]
        reg.magnitudes = fixtures.mag_bins(*ob)
    rc = {"exec": "cartesian", "args": {"lat_case": lat_case, "mag": mag, "n": n, "hostile": hostile, "seed": seed}}
    ctx.current_case = rc
    tags = {"region": "cartesian", "flags": lat_case.get("flags") is not None, "explicit_bins": explicit, "hostile": hostile, "n0": n == 0,
            "bound_other_grid": bound_other, "edges": mag[3] if len(mag) > 3 else "decimal"}
    lon, lat, ij = place_events(rng, model.ex, model.ey, active, n, float(lat_case["dh"]))
    mags, mk = place_mags(rng, nominal, n)
    cell = model.ci[ij[:, 0], ij[:, 1]] if n else numpy.zeros(0, dtype=int)
    dh_ = float(lat_case["dh"])
    xin, yin = float(model.ex[ij[0, 0]] + 0.5 * dh_) if n else float(model.ex[0] + 0.5 * dh_), float(model.ey[ij[0, 1]] + 0.5 * dh_) if n else float(model.ey[0] + 0.5 * dh_)
    # outside the bounding box in BOTH coordinates, or in exactly ONE (straight north / east / south / west of an occupied cell), or exactly ON
    # the (exclusive) north / east edge of the box
    okind = ["both", "north", "east", "south", "west", "on-north-edge", "on-east-edge"][seed % 7]
    outside_pt = {"both": (float(model.ex[-1] + 3.3 * dh_), float(model.ey[0] - 2.2 * dh_)),
                  "north": (xin, float(model.ey[-1] + 0.5 * dh_)), "east": (float(model.ex[-1] + 0.5 * dh_), yin),
                  "south": (xin, float(model.ey[0] - 0.5 * dh_)), "west": (float(model.ex[0] - 0.5 * dh_), yin),
                  "on-north-edge": (xin, float(model.ey[-1])), "on-east-edge": (float(model.ex[-1]), yin)}[okind]
    tags = dict(tags, outside_kind=okind)
    inactive = numpy.argwhere(model.ci < 0)
    if hostile == "space" and len(inactive) and seed % 2:
        # an event inside the bounding box but in a hole or in a cell the region's mask flags switch off
        i_, j_ = inactive[int(rng.integers(0, len(inactive)))]
        outside_pt = (float(model.ex[i_] + 0.5 * dh_), float(model.ey[j_] + 0.5 * dh_))
        tags = dict(tags, outside_kind="hole-or-flagged-cell")
    out = run_case(ctx, rc, tags, reg, bins, explicit, lon, lat, mags, cell, mk, hostile, rng, outside_pt=outside_pt)
    if out is not None and n and not bound_other:
        rebind_history(ctx, rc, tags, out, lat_case, bins, explicit, rng)
    if n >= 2:
        ctx.nt(digest(("cart", lat_case, mag, n, hostile, seed)))


def rebind_history(ctx, rc, tags, out, lat_case, bins, explicit, rng):
    """History: the same catalog object, already gridded on R1, is re-bound to a region R2 with the same cells in another
    order (as the evaluation functions do with `catalog.region = forecast.region`) and gridded again."""
    cat, lon, lat, cell, mk = out
    n_cells = len(lat_case["cells"])
    perm = rng.permutation(n_cells)
    case2 = dict(lat_case)
    case2["cells"] = [lat_case["cells"][k] for k in perm]
    if lat_case.get("flags") is not None:
        case2["flags"] = [lat_case["flags"][k] for k in perm]
    reg2, model2, _ = c01.build_region(case2)
    if not explicit:
        reg2.magnitudes = bins
    inv = numpy.empty(n_cells, dtype=int)
    inv[perm] = numpy.arange(n_cells)          # old polygon index -> new polygon index
    cell2 = inv[cell]
    ref2 = numpy.zeros((reg2.num_nodes, bins.size))
    numpy.add.at(ref2, (cell2, mk), 1)
    kw = {"mag_bins": bins} if explicit else {}
    cat.region = reg2
    ctx.mon("history:rebind-region", 1)
    t2 = dict(tags, history="grid on R1, catalog.region = R2, grid again")
    ok, sc, tb = ctx.call(cat.spatial_counts)
    if not ok or not numpy.array_equal(numpy.asarray(sc, dtype=float), ref2.sum(axis=1)):
        ctx.violate("after re-binding the catalog to another region the spatial counts are not those of the new region", rc,
                    observed=repr(sc) if not ok else numpy.asarray(sc)[:8], expected=ref2.sum(axis=1)[:8], tags=dict(t2, api="spatial_counts", clause="stale-after-rebind"))
    ok, smc, tb = ctx.call(cat.spatial_magnitude_counts, **kw)
    if not ok or not numpy.array_equal(numpy.asarray(smc, dtype=float), ref2):
        ctx.violate("after re-binding the catalog to another region the space-magnitude counts are not those of the new region", rc,
                    observed=repr(smc)[:200], tags=dict(t2, api="spatial_magnitude_counts", clause="stale-after-rebind"))
    ok, pr, tb = ctx.call(cat.spatial_event_probability)
    if not ok or not numpy.array_equal(numpy.asarray(pr, dtype=float), (ref2.sum(axis=1) > 0).astype(float)):
        ctx.violate("after re-binding the catalog to another region the occupancy map is not that of the new region", rc,
                    tags=dict(t2, api="spatial_event_probability", clause="stale-after-rebind"))
    # history: the stored event array of the (already gridded) catalog is re-ordered in place, then gridded again
    if len(cell2) >= 2:
        o = rng.permutation(len(cell2))
        cat.catalog[:] = cat.catalog[o]
        ref3 = numpy.zeros((reg2.num_nodes, bins.size))
        numpy.add.at(ref3, (cell2[o], numpy.asarray(mk)[o]), 1)          # same multiset: ref3 == ref2
        ok, smc, tb = ctx.call(cat.spatial_magnitude_counts, **kw)
        ok1, sc, tb = ctx.call(cat.spatial_counts)
        ok2, mc, tb = ctx.call(cat.magnitude_counts, **kw)
        ctx.mon("history:inplace-reorder", 1)
        if not ok or not ok1 or not ok2 or not numpy.array_equal(numpy.asarray(smc, dtype=float), ref3) or \
                not numpy.array_equal(numpy.asarray(sc, dtype=float), ref3.sum(axis=1)) or not numpy.array_equal(numpy.asarray(mc, dtype=float), ref3.sum(axis=0)):
            ctx.violate("after re-ordering the stored events in place the gridded counts change", rc, observed=repr(smc)[:160],
                        tags=dict(t2, api="spatial_magnitude_counts", clause="stale-after-inplace-reorder", history="grid, permute catalog array in place, grid again"))
    # a region with a hole under an event must now reject the catalog
    if n_cells > 1:
        drop = int(cell[0])
        case3 = dict(lat_case)
        case3["cells"] = [c for k, c in enumerate(lat_case["cells"]) if k != drop]
        if lat_case.get("flags") is not None:
            case3["flags"] = [f for k, f in enumerate(lat_case["flags"]) if k != drop]
            if not any(case3["flags"]):
                return
        try:
            reg3, _, _ = c01.build_region(case3)
        except Exception:  # noqa
            return
        if not explicit:
            reg3.magnitudes = bins
        cat.region = reg3
        ok, sc, tb = ctx.call(cat.spatial_counts)
        if ok:
            ctx.violate("after re-binding to a region with a hole under an event the catalog is still gridded", rc, observed=float(numpy.sum(sc)),
                        expected="ValueError", tags=dict(t2, api="spatial_counts", clause="stale-after-rebind"))


def ex_quadtree(ctx, qmode, zoom, mag, n, hostile, seed):
    from csep.core.regions import QuadtreeGrid2D
    rng = numpy.random.default_rng([seed, 4])
    bins, nominal = make_bins(mag)
    explicit = bool(seed % 2)
    bound_other = explicit and seed % 4 == 1
    other = fixtures.mag_bins(*OTHER_BOUND[seed % 3]) if bound_other else None
    if qmode == "single":
        reg = QuadtreeGrid2D.from_single_resolution(zoom, magnitudes=other if explicit else bins)
    elif qmode == "cut":
        qk = c17.random_cut(rng, zoom + 1, keep=1.0)
        order = int(rng.integers(0, 3))
        if order == 1:
            qk = [qk[i] for i in rng.permutation(len(qk))]               # arbitrary listing order
        elif order == 2:
            qk = sorted(qk, key=lambda q: (len(q), c17.tile_bounds(q)[1]))  # coarse cells first, south to north
        reg = QuadtreeGrid2D.from_quadkeys(qk, magnitudes=other if explicit else bins)
    else:
        lo, la = c17._catalog(rng, "cluster", zoom + 2)
        reg = QuadtreeGrid2D.from_catalog(fixtures.catalog(lo, la, numpy.full(len(lo), 5.0)), int(rng.choice([2, 10])), zoom=zoom + 2,
                                          magnitudes=other if explicit else bins)
    if not hasattr(reg, "magnitudes"):
        reg.magnitudes = None
    b = numpy.asarray(reg.bounds, dtype=float)
    k = rng.integers(0, len(b), n)
    mode = rng.integers(0, 4, n)
    lon = numpy.where(mode <= 1, b[k, 0], b[k, 0] + rng.uniform(0.2, 0.8, n) * (b[k, 2] - b[k, 0]))
    lat = numpy.where((mode == 0) | (mode == 2), b[k, 1], b[k, 1] + rng.uniform(0.2, 0.8, n) * (b[k, 3] - b[k, 1]))
    mags, mk = place_mags(rng, nominal, n)
    rc = {"exec": "quadtree", "args": {"qmode": qmode, "zoom": zoom, "mag": mag, "n": n, "hostile": hostile, "seed": seed}}
    ctx.current_case = rc
    tags = {"region": "quadtree", "explicit_bins": explicit, "hostile": hostile, "n0": n == 0, "bound_other_grid": bound_other,
            "edges": mag[3] if len(mag) > 3 else "decimal"}
    # outside points: beyond the Mercator limit, or exactly ON the grid's north edge (north is exclusive)
    run_case(ctx, rc, tags, reg, bins, explicit, lon, lat, mags, k, mk, hostile, rng,
             outside_pt=(10.0, 86.5) if seed % 3 else (float(b[int(rng.integers(0, len(b))), 0]), float(b[:, 3].max())))
    if n >= 2:
        ctx.nt(digest(("quad", qmode, zoom, mag, n, hostile, seed)))


def run_case(ctx, rc, tags, reg, bins, explicit, lon, lat, mags, cell, mk, hostile, rng, outside_pt):
    n = len(lon)
    ncell = reg.num_nodes
    order = rng.permutation(n)
    lon, lat, mags, cell, mk = lon[order], lat[order], mags[order], numpy.asarray(cell)[order], numpy.asarray(mk)[order]
    kw = {"mag_bins": bins} if explicit else {}
    cat = fixtures.catalog(lon, lat, mags, region=reg)
    if hostile == "none" and n and tags.get("edges") == "decimal" and int(rng.integers(0, 5)) == 0:
        # a catalog whose magnitude column is single precision (readers may deliver that): an on-edge magnitude is then the float32 nearest to
        # the edge, i.e. within the float32 round-off tolerance of it - gridding and the equivalent filter must still agree
        from csep.core.catalogs import CSEPCatalog
        a = cat.catalog
        dt = [(nm, (a.dtype[nm] if nm != "magnitude" else numpy.dtype("<f4"))) for nm in a.dtype.names]
        cat = CSEPCatalog(data=a.astype(dt), region=reg)
        tags = dict(tags, magnitude_dtype="float32")
    ref = numpy.zeros((ncell, bins.size))
    numpy.add.at(ref, (cell, mk), 1)
    ctx.count(1)
    if hostile == "none":
        ok, smc, tb = ctx.call(cat.spatial_magnitude_counts, **kw)
        ctx.mon("post:spatial_magnitude_counts", 0)
        if not ok:
            ctx.violate("space-magnitude gridding raised on an in-range catalog", rc, observed=repr(smc), tb=tb, tags=dict(tags, api="spatial_magnitude_counts"))
            return
        smc = numpy.asarray(smc, dtype=float)
        if smc.shape != ref.shape or not numpy.array_equal(smc, ref):
            d = numpy.argwhere(smc != ref)[:5] if smc.shape == ref.shape else None
            ctx.violate("space-magnitude count array != number of events per (cell, bin)", rc, observed={"at": d, "got": None if d is None else smc[tuple(d.T)]},
                        expected=None if d is None else ref[tuple(d.T)], tags=dict(tags, api="spatial_magnitude_counts", clause="entries"))
        if ctx.evaluations % 151 == 0 and n:
            ctx.sample({"region": tags["region"], "n_cells": int(ncell), "mag_edges_head": bins[:4], "events_head(lon,lat,mag)": numpy.column_stack([lon, lat, mags])[:4],
                        "reference_cell_bin_head": numpy.column_stack([cell, mk])[:4], "count_array_total": float(smc.sum()), "nonzero_entries_head": numpy.argwhere(smc > 0)[:4]})
        ok1, sc, tb = ctx.call(cat.spatial_counts)
        ok2, mc, tb2 = ctx.call(cat.magnitude_counts, **kw)
        ok3, pr, tb3 = ctx.call(cat.spatial_event_probability)
        ctx.mon("identity:marginals", 1)
        if ok1 and not numpy.array_equal(numpy.asarray(sc, dtype=float), ref.sum(axis=1)):
            ctx.violate("spatial counts != sum of the space-magnitude counts over magnitude", rc, observed=numpy.asarray(sc)[:8], expected=ref.sum(axis=1)[:8],
                        tags=dict(tags, api="spatial_counts", clause="marginal"))
        if ok2 and not numpy.array_equal(numpy.asarray(mc, dtype=float), ref.sum(axis=0)):
            ctx.violate("magnitude counts != sum of the space-magnitude counts over space", rc, observed=mc, expected=ref.sum(axis=0),
                        tags=dict(tags, api="magnitude_counts", clause="marginal"))
        if ok3 and ok1 and not numpy.array_equal(numpy.asarray(pr, dtype=float), (ref.sum(axis=1) > 0).astype(float)):
            ctx.violate("occupancy map != [spatial count > 0]", rc, tags=dict(tags, api="spatial_event_probability", clause="occupancy"))
        for nm, okx, val in (("spatial_counts", ok1, sc), ("magnitude_counts", ok2, mc), ("spatial_event_probability", ok3, pr)):
            if not okx:
                ctx.violate("%s raised on an in-range catalog" % nm, rc, observed=repr(val), tags=dict(tags, api=nm))
        # magnitude bin k == size of the equivalent magnitude-range filter
        if ok2 and n and tags.get("edges") == "decimal":
            for k in sorted(set(rng.integers(0, bins.size, 4).tolist() + [bins.size - 1])):
                st = ["magnitude >= %r" % float(bins[k])] + (["magnitude < %r" % float(bins[k + 1])] if k + 1 < bins.size else [])
                okf, f, tbf = ctx.call(cat.filter, st, in_place=False)
                if not okf:
                    ctx.violate("the equivalent magnitude-range filter raised", rc, observed=repr(f), tb=tbf, tags=dict(tags, api="filter", clause="filter-equivalence"))
                elif f.event_count != numpy.asarray(mc)[k]:
                    ctx.violate("count in magnitude bin k != number of events kept by the equivalent magnitude-range filter", rc,
                                observed={"k": k, "count": float(numpy.asarray(mc)[k]), "filter": int(f.event_count)}, tags=dict(tags, api="magnitude_counts", clause="filter-equivalence"))
        return cat, lon, lat, cell, mk
    # ---- hostile mixes: out-of-range events interleaved
    kbad = int(rng.integers(1, 4))
    pos = {"start": 0, "middle": n // 2, "end": n}[str(rng.choice(["start", "middle", "end"]))]
    bad_lon, bad_lat, bad_mag = [], [], []
    for _ in range(kbad):
        if hostile == "space":
            bad_lon.append(outside_pt[0]); bad_lat.append(outside_pt[1]); bad_mag.append(float(bins[0]) + 0.01)
        else:
            j = int(rng.integers(0, max(n, 1))) if n else 0
            bad_lon.append(lon[j] if n else outside_pt[0]); bad_lat.append(lat[j] if n else outside_pt[1])
            bad_mag.append(float(bins[0]) - float(rng.choice([0.5, 1e-3, 2.0])))
    if hostile == "mag" and n == 0:
        return
    L = numpy.concatenate([lon[:pos], bad_lon, lon[pos:]])
    A = numpy.concatenate([lat[:pos], bad_lat, lat[pos:]])
    M = numpy.concatenate([mags[:pos], bad_mag, mags[pos:]])
    cat2 = fixtures.catalog(L, A, M, region=reg)
    tags = dict(tags, bad_position=pos == 0 and "start" or (pos == n and "end" or "middle"))
    ok, smc, tb = ctx.call(cat2.spatial_magnitude_counts, **kw)
    ctx.mon("reject:out-of-range", 1)
    if ok:
        smc = numpy.asarray(smc, dtype=float)
        ctx.violate("space-magnitude gridding silently accepts an event %s" % ("outside the spatial region" if hostile == "space" else "below the lowest magnitude edge"),
                    rc, observed={"total": float(smc.sum()), "events": int(len(L)), "equals_reference_of_valid_events": bool(smc.shape == ref.shape and numpy.array_equal(smc, ref))},
                    expected="rejection (ValueError)", tags=dict(tags, api="spatial_magnitude_counts", clause="not-rejected"))
    elif not isinstance(smc, (ValueError, IndexError)) or isinstance(smc, IndexError):
        if not isinstance(smc, ValueError):
            ctx.violate("out-of-range event is not rejected cleanly (unexpected exception)", rc, observed=repr(smc), tags=dict(tags, api="spatial_magnitude_counts", clause="not-rejected", exc=type(smc).__name__))
    if hostile == "mag":
        ok, mc, tb = ctx.call(cat2.magnitude_counts, **kw)
        if not ok:
            ctx.violate("magnitude histogram raised on an event below the lowest edge (it should leave it uncounted)", rc, observed=repr(mc),
                        tags=dict(tags, api="magnitude_counts", clause="below-min"))
        elif not numpy.array_equal(numpy.asarray(mc, dtype=float), ref.sum(axis=0)):
            ctx.violate("magnitude histogram counts an event below the lowest edge in some bin", rc, observed=mc, expected=ref.sum(axis=0),
                        tags=dict(tags, api="magnitude_counts", clause="below-min", in_last_bin=bool(numpy.asarray(mc)[-1] > ref.sum(axis=0)[-1])))
    if hostile == "space":
        ok, sc, tb = ctx.call(cat2.spatial_counts)
        if ok:
            ctx.violate("spatial counts silently drop or misplace an event outside the region", rc, observed={"total": float(numpy.sum(sc)), "events": int(len(L))},
                        expected="rejection (ValueError)", tags=dict(tags, api="spatial_counts", clause="not-rejected"))


def ex_noop(ctx):
    pass


EXECUTORS = {"cartesian": ex_cartesian, "quadtree": ex_quadtree, "noop": ex_noop}
MAGS = [("4.95", "0.1", 41), ("5.95", "0.1", 12), ("2.5", "0.1", 30), ("5.0", "0.5", 6), ("3.95", "0.2", 9), ("4.95", "0.1", 1), ("6.0", "0.25", 4),
        ("3.0", "0.1", 60, "arange"), ("2.5", "0.1", 30, "arange"), ("4.0", "0.1", 41, "linspace"), ("3.0", "0.2", 20, "mul"), ("4.95", "0.1", 31, "mul"),
        ("0.05", "0.3", 12, "arange")]


def run(ctx):
    install(ctx)
    thorough = ctx.tier == "thorough"
    n = (500000 if thorough else 2400) // ctx.nshards
    for j in range(n):
        r = ctx.rng("c03", j)
        mag = MAGS[int(r.integers(0, len(MAGS)))]
        nev = int(r.choice([0, 1, 2, 5, 30, 300 if j % 20 == 0 else 60]))
        hostile = ["none", "none", "space", "mag"][j % 4]
        if j % 3:
            case = c01.gen_lattice(r, force=int(r.integers(3, 8)))
            case["ctor"] = "ctor" if case["flags"] is not None else "from_origins"
            ex_cartesian(ctx, case, mag, nev, hostile, seed=int(r.integers(0, 10 ** 9)))
        else:
            ex_quadtree(ctx, ["single", "cut", "catalog"][j % 9 // 3], int(r.integers(1, 4 if not thorough else 5)), mag, nev, hostile,
                        seed=int(r.integers(0, 10 ** 9)))
        if j % 200 == 0:
            ctx.sample({"region": "cartesian" if j % 3 else "quadtree", "mag_grid": mag, "n_events": nev, "hostile": hostile})
    if ctx.shard == 0:
        # one cell and bin holding more events than a 16-bit counter can hold
        from csep.core.catalogs import CSEPCatalog
        reg = fixtures.region(2, 2, "0.1", "10", "20", magnitudes=fixtures.mag_bins("4.95", "0.1", 3))
        nbig = 70000
        data = numpy.zeros(nbig + 2, dtype=CSEPCatalog.dtype)
        data["id"] = b"x"
        data["origin_time"] = 1262304000000 + numpy.arange(nbig + 2)
        data["longitude"], data["latitude"], data["depth"], data["magnitude"] = 10.15, 20.05, 5.0, 4.97
        data["longitude"][-2:], data["magnitude"][-2:] = 10.05, 5.12
        big = CSEPCatalog(data=data, region=reg)
        rcb = {"exec": "noop", "args": {}}
        ok, smc, tb = ctx.call(big.spatial_magnitude_counts)
        ok2, mc, tb2 = ctx.call(big.magnitude_counts)
        ctx.count(1)
        if not ok or float(numpy.sum(smc)) != nbig + 2 or float(numpy.asarray(smc)[2, 0]) != nbig or (ok2 and not numpy.array_equal(numpy.asarray(smc, dtype=float).sum(axis=0), numpy.asarray(mc, dtype=float))):
            ctx.violate("space-magnitude count array != number of events per (cell, bin)", rcb, observed=repr(smc)[:160] if not ok else {"total": float(numpy.sum(smc)), "entry": float(numpy.asarray(smc)[2, 0])},
                        expected={"total": nbig + 2, "entry": nbig}, tags={"api": "spatial_magnitude_counts", "clause": "entries", "events_in_one_bin": nbig})
