"""C10 - catalog-based consistency tests compute the documented statistics."""
import math
import os
import tempfile

import numpy

from .. import fixtures, gridcases, monitor, simlog
from ..core import digest, close, scratch_dir
from . import c12

META = {
    "title": "Catalog-based tests compute the documented statistics",
    "level": "exploration",
    "rule": ("catalog forecasts of 1..40 synthetic catalogs x 0..60 events (some empty, all empty) on regions of 1..50 cells x 2..8 magnitude bins, "
             "in memory and streamed from a file (store on/off); observed catalogs: empty, single event, many per cell, events in never-sampled "
             "cells (some / all). Each through number, spatial, magnitude, pseudo-likelihood, resampled-magnitude and MLL tests; the resampling "
             "tests run under an RNG log so each test_distribution[j] is checked against the actual resample j. Non-trivial: J >= 2 with unequal "
             "N_j, or an empty synthetic catalog, or an undersampled / empty observation; distinct = digest(forecast, observation, test)."),
    "assumptions": ["statistics re-implemented from docs/getting_started/theory.rst and the in-code docstrings (MLL sign follows the code docstring and the repository's unit tests)",
                    "reference gridding by construction (events strictly inside cells and magnitude bins)", "tolerance 1e-9*(1+|x|)"],
    "deciding": ["e2e:N", "e2e:S", "e2e:M", "e2e:PL", "e2e:RM", "e2e:MLL", "post:_compute_likelihood", "post:MLL_score", "ties:twin-catalogs"],
}
META["added"] = 'Added: synthetic catalogs that were gridded on another region before the forecast got them. MLL full_calculation, events far above the last magnitude edge, file-streamed forecasts with filters, observations gridding exactly like a synthetic catalog (bit-for-bit ties, monitor ties:twin-catalogs). observations with events below the lowest magnitude edge. catalogs bound to another region object, magnitudes one ulp below an edge. spatially filtered in-memory forecasts with events outside along one axis.'
MANIFEST = {
    "technique": "independent re-implementation of the documented statistics as oracle over the real tests' results; runtime post-conditions on _compute_likelihood / cumulative_square_diff / MLL_score; RNG boundary log (numpy.random.choice) aligning each resampled test-distribution entry with its actual resample; status/None signalling checked on empty and undersampled observations",
    "level_text": "For each generated catalog forecast and observation the six public tests run for real; every test-distribution entry, observed statistic, quantile pair and status is compared with an independent implementation of the documented definition fed by reference gridding, including the explicit signalling of undefined statistics (empty observation -> not-valid / None; empty synthetic catalogs skipped where undefined; events in never-sampled cells excluded and flagged 'undersampled').",
    "level_note": "Trusted: the re-implemented definitions (a prototype agreed with the pinned implementation to 9e-16 on 200 forecasts); math.lgamma/fsum.",
}
WATCHDOG_S = {"quick": 900, "thorough": 5400}


def shards(tier):
    return 4 if tier == "quick" else 16


def gen(rng, obs_mode=None, empty_mode=None):
    nx, ny = int(rng.integers(1, 8)), int(rng.integers(1, 8))
    nmag = int(rng.integers(2, 9))
    J = int(rng.choice([1, 2, 3, 5, 12, 40]))
    ncell = nx * ny
    hot = rng.integers(0, ncell, max(1, ncell // 2))            # sampled cells (others never sampled)
    cats = []
    for j in range(J):
        n = int(rng.choice([0, 1, 2, 5, 20, 60])) if (empty_mode != "all") else 0
        if empty_mode == "some" and j % 2:
            n = 0
        cats.append([(int(rng.choice(hot)), int(min(nmag - 1, rng.geometric(0.5) - 1))) for _ in range(n)])
    mode = obs_mode or str(rng.choice(["normal", "normal", "empty", "single", "dense", "unsampled-some", "unsampled-all", "twin", "below-min"]))
    sampled = sorted({c for cat in cats for c, _ in cat})
    unsampled = [c for c in range(ncell) if c not in sampled]
    pool = sampled or list(range(ncell))
    if mode == "twin" and any(cats):
        # the observation grids exactly like one of the synthetic catalogs (same events, another order): its statistic must tie with that catalog's
        src = [c for c in cats if c][int(rng.integers(0, sum(1 for c in cats if c)))]
        obs = [src[i] for i in rng.permutation(len(src))]
    elif mode == "empty":
        obs = []
    elif mode == "single":
        obs = [(int(rng.choice(pool)), int(rng.integers(0, nmag)))]
    elif mode == "dense":
        c0 = int(rng.choice(pool))
        obs = [(c0, int(rng.integers(0, nmag))) for _ in range(int(rng.integers(3, 15)))]
    elif mode == "unsampled-some" and unsampled:
        obs = [(int(rng.choice(pool)), int(rng.integers(0, nmag))) for _ in range(int(rng.integers(1, 6)))] + \
              [(int(rng.choice(unsampled)), int(rng.integers(0, nmag))) for _ in range(int(rng.integers(1, 4)))]
    elif mode == "unsampled-all" and unsampled:
        obs = [(int(rng.choice(unsampled)), int(rng.integers(0, nmag))) for _ in range(int(rng.integers(1, 4)))]
    else:
        obs = [(int(rng.choice(pool)), int(rng.integers(0, nmag))) for _ in range(int(rng.integers(1, 25)))]
    below = 0
    if mode == "below-min" and obs:
        below = int(rng.integers(1, 4))          # extra observed events BELOW the lowest magnitude edge: they fall in no magnitude bin
    return {"nx": nx, "ny": ny, "nmag": nmag, "cats": cats, "obs": obs, "obs_mode": mode, "obs_below": below,
            "dh": str(rng.choice(["0.1", "0.5"])), "ax": str(rng.choice(["10", "-125.4"])), "ay": str(rng.choice(["31.5", "-40"]))}


def build(fc, source, tmp):
    import csep
    from csep.core.forecasts import CatalogForecast
    mags = fixtures.mag_bins("4.95", "0.1", fc["nmag"])
    reg = fixtures.region(fc["nx"], fc["ny"], fc["dh"], fc["ax"], fc["ay"], magnitudes=mags)

    def mk(evs, cid=None, name=None, below=0):
        if not evs:
            return fixtures.catalog([], [], [], region=reg, catalog_id=cid, name=name)
        cells = numpy.array([e[0] for e in evs])
        k = numpy.array([e[1] for e in evs])
        lons, lats = fixtures.events_in_cells(reg, cells, None, frac=numpy.full((len(evs), 2), 0.5))
        mv = mags[k] + 0.03
        # every fifth event is "practically on" its bin's lower edge: one ulp below it (e.g. 5.6 + 0.1 = 5.699999999999999), which the documented
        # round-off tolerance of the binning counts into that bin - per-catalog histograms and mean rates must agree on that
        onedge = ((numpy.arange(len(evs)) + cells + k) % 5 == 2) & (k >= 1)
        mv = numpy.where(onedge, numpy.nextafter(mags[k], -numpy.inf), mv)
        # the last magnitude bin is open-ended: every other last-bin event lies far above the last edge
        far = (k == fc["nmag"] - 1) & ((numpy.arange(len(evs)) + cells) % 2 == 0)
        mv = numpy.where(far, mags[-1] + 2.35, mv)
        if below:
            # events of the same cells with a magnitude below the lowest bin edge, interleaved at the front
            lons = numpy.concatenate([lons[:below], lons])
            lats = numpy.concatenate([lats[:below], lats])
            mv = numpy.concatenate([numpy.full(min(below, len(evs)), float(mags[0]) - 0.25), mv])
        return fixtures.catalog(lons, lats, mv, region=reg, catalog_id=cid, name=name)
    cats = [mk(evs, j) for j, evs in enumerate(fc["cats"])]
    if source == "memory_spatial":
        # every non-empty synthetic catalog also holds an event outside the region along exactly ONE axis (straight north / east of one of its
        # events); the forecast is configured to filter spatially, so these events belong to no statistic
        from csep.core.catalogs import CSEPCatalog
        north = float(reg.origins()[:, 1].max() + reg.dh * 1.5)
        east = float(reg.origins()[:, 0].max() + reg.dh * 1.5)
        out = []
        for j, c_ in enumerate(cats):
            rows = c_.catalog.tolist()
            if rows:
                e0 = rows[0]
                extra = (b"out%d" % j, e0[1] + 7, north, e0[3], e0[4], e0[5]) if j % 2 else (b"out%d" % j, e0[1] + 7, e0[2], east, e0[4], e0[5])
                rows = rows[:1] + [extra] + rows[1:]
            out.append(CSEPCatalog(data=[(r_[0].decode() if isinstance(r_[0], bytes) else r_[0],) + tuple(r_[1:]) for r_ in rows], catalog_id=j, region=reg))
        f = CatalogForecast(catalogs=out, region=reg, n_cat=len(out), name="cf", filter_spatial=True, apply_filters=True)
        return f, mk(fc["obs"], name="obs", below=fc.get("obs_below", 0)), reg, mags
    if source == "memory":
        if len(fc["cats"]) % 2 and reg.num_nodes > 1:
            # the synthetic catalogs arrive bound to ANOTHER region object (the same cells listed in reverse, other magnitude edges): the forecast's
            # own region is the one every statistic is gridded on
            from csep.core.regions import CartesianGrid2D
            other = CartesianGrid2D.from_origins(reg.origins()[::-1].copy(), dh=reg.dh, magnitudes=numpy.asarray(mags) + 0.05)
            for c_ in cats:
                c_.region = other
                if (len(fc["cats"]) // 2) % 2 == 0:
                    # ... and were gridded there (they were part of another forecast's evaluation) before this forecast got them
                    gridcases._quiet(c_.spatial_counts)
                    gridcases._quiet(c_.spatial_magnitude_counts)
        f = CatalogForecast(catalogs=cats, region=reg, n_cat=len(cats), name="cf")
    else:
        path = os.path.join(tmp, "fc_%s.csv" % source)
        rows = [[(e[0].decode(), int(e[1]), float(e[2]), float(e[3]), float(e[4]), float(e[5])) for e in c.catalog.tolist()] for c in cats]
        kw = {}
        if source == "file_filtered":
            # the file holds extra events below the magnitude threshold; the forecast is configured to filter them on every pass
            rows = [r_ + [("x%d_%d" % (j, q), e[1] + 1, e[2], e[3], e[4], 4.2) for q, e in enumerate(r_[:2])] for j, r_ in enumerate(rows)]
            kw = {"filters": ["magnitude >= 4.95"], "apply_filters": True}
        c12.write_file(path, rows, [True] * len(rows), True, "frac")
        f = csep.load_catalog_forecast(path, region=reg, store=(source == "file_store"), name="cf", **kw)
    return f, mk(fc["obs"], name="obs", below=fc.get("obs_below", 0)), reg, mags


# ---------------------------------------------------------------------------------------------
# reference statistics


def grids(fc):
    ncell = fc["nx"] * fc["ny"]
    G = []
    for evs in fc["cats"]:
        g = numpy.zeros((ncell, fc["nmag"]))
        for c, k in evs:
            g[c, k] += 1
        G.append(g)
    o = numpy.zeros((ncell, fc["nmag"]))
    for c, k in fc["obs"]:
        o[c, k] += 1
    return G, o


def pl_stat(sp_counts, lam_s, nbar, n_obs):
    """(pseudo-likelihood, normalised spatial statistic) of _compute_likelihood's definition."""
    n_ev = sp_counts.sum()
    if n_ev == 0:
        return -nbar, math.nan
    idx = sp_counts > 0
    if numpy.any(lam_s[idx] == 0):
        plh = -math.inf
    else:
        plh = math.fsum((sp_counts[idx] * numpy.log(lam_s[idx])).tolist()) - nbar
    if n_obs == 0 or nbar == 0:
        return plh, math.nan
    p = lam_s / lam_s.sum()
    if numpy.any(p[idx] == 0):
        return plh, -math.inf
    return plh, math.fsum((sp_counts[idx] * numpy.log(p[idx])).tolist()) / n_ev


def m_stat(h_scaled, ref_scaled):
    return math.fsum(((numpy.log10(h_scaled + 1) - numpy.log10(ref_scaled + 1)) ** 2).tolist())


def lmult(x):
    size = x.sum()
    p = x / size
    return math.lgamma(size + 1) + math.fsum((x * numpy.log(p) - numpy.array([math.lgamma(v + 1) for v in x])).tolist())


def mll(union, cat):
    nu, nj = union.sum(), cat.sum()
    u = union + nu / nj
    c = cat + 1.0
    return 2.0 * (lmult(u + c) - lmult(u) - lmult(c))


def qpair(dist, v):
    d = numpy.asarray(dist, dtype=float)
    return float(numpy.sum(d >= v)) / d.size, float(numpy.sum(d <= v)) / d.size


def same(a, b):
    if a is None or b is None:
        return a is b
    return close(float(a), float(b), rel=1e-9, abs_=1e-12)


def cmp_dist(ctx, rc, tags, test, got, want):
    got = [float(x) for x in got]
    if len(got) != len(want) or not all(same(a, b) for a, b in zip(got, want)):
        k = next((i for i, (a, b) in enumerate(zip(got, want)) if not same(a, b)), None)
        ctx.violate("%s test distribution is not the documented statistic of each synthetic catalog" % test, rc,
                    observed={"len": len(got), "first_diff": k, "got": None if k is None else got[k]}, expected={"len": len(want), "want": None if k is None else want[k]},
                    tags=dict(tags, test=test, clause="distribution", length_differs=len(got) != len(want)))
        return False
    return True


def check_twins(ctx, rc, tags, nm, res, twins):
    """Synthetic catalogs whose gridded counts equal the observation's have, by definition, exactly the observation's statistic: the
    empirical quantiles must count them as ties (an error of twins/J otherwise)."""
    if not twins:
        return
    ctx.mon("ties:twin-catalogs", 1)
    d = numpy.asarray(res.test_distribution, dtype=float)
    eq = int(numpy.sum(d == float(res.observed_statistic)))
    if eq < twins:
        ctx.violate("%s-test: synthetic catalogs gridding exactly like the observation do not tie with the observed statistic" % nm, rc,
                    observed={"entries_equal_to_statistic": eq, "quantile": res.quantile, "statistic": float(res.observed_statistic),
                              "nearest": float(d[numpy.argmin(numpy.abs(d - float(res.observed_statistic)))])},
                    expected={"twin_catalogs": twins}, tags=dict(tags, clause="quantile-ties"))


def ex_case(ctx, fc, source="memory", seed=0):
    import csep.core.catalog_evaluations as ce
    tmp = scratch_dir("c10-")
    rc = {"exec": "case", "args": {"fc": fc, "source": source, "seed": seed}}
    ctx.current_case = rc
    try:
        _run(ctx, fc, source, seed, tmp, rc, ce)
    finally:
        for fn in os.listdir(tmp):
            os.remove(os.path.join(tmp, fn))
        os.rmdir(tmp)


def _run(ctx, fc, source, seed, tmp, rc, ce):
    G, O = grids(fc)
    J = len(G)
    N = [int(g.sum()) for g in G]
    n_obs = int(O.sum())
    mean = sum(G) / J
    nbar = float(mean.sum())
    lam_s = mean.sum(axis=1)
    empties = sum(1 for n in N if n == 0)
    obs_sp = O.sum(axis=1)
    unsampled_events = float(obs_sp[lam_s == 0].sum())
    tags = {"source": source, "obs_mode": fc["obs_mode"], "empty_synthetic": empties > 0, "all_empty": empties == J, "undersampled": unsampled_events > 0}
    nt = (J >= 2 and len(set(N)) > 1) or empties > 0 or unsampled_events > 0 or n_obs == 0

    # half of the cases evaluate ONE forecast object (and one observation object) with every test in turn - the way an experiment is run -
    # instead of a fresh pair per test; the documented statistics do not depend on what was evaluated before (order of S / PL by seed)
    shared = bool(seed % 2) and not fc.get("obs_below")
    built = []

    def fresh():
        if shared:
            if not built:
                built.append(build(fc, source, tmp))
            return built[0]
        return build(fc, source, tmp)
    tags["one_forecast_object_for_all_tests"] = shared
    if shared:
        ctx.mon("history:one-forecast-object-through-all-tests", 1)
    ctx.count(6)
    if fc.get("obs_below"):
        # the observation holds events below the lowest magnitude edge: only the magnitude-gridded tests have a defined reference here
        # (N_obs of those tests = number of GRIDDED observed events)
        tags["obs_below_min_mag"] = True
        if nbar == 0:
            return
        _run_mag(ctx, fc, source, seed, rc, ce, tags, G, O, J, n_obs, fresh)
        if nt:
            ctx.nt(digest((fc, source)))
        return
    # ---------------- N
    f, obs, reg, mags = fresh()
    ok, res, tb = ctx.call(ce.number_test, f, obs, verbose=False)
    ctx.mon("e2e:N", 1)
    if not ok:
        ctx.violate("number_test raised", rc, observed=repr(res), tb=tb, tags=dict(tags, test="N", clause="raised"))
    else:
        cmp_dist(ctx, rc, tags, "N", res.test_distribution, N)
        if res.observed_statistic != n_obs or tuple(map(float, res.quantile)) != qpair(N, n_obs) or res.status != "normal":
            ctx.violate("N-test statistic / quantiles are not the observed count and its empirical tail probabilities", rc,
                        observed=[res.observed_statistic, res.quantile, res.status], expected=[n_obs, qpair(N, n_obs), "normal"], tags=dict(tags, test="N", clause="statistic"))
    if nbar == 0:
        # every synthetic catalog is empty: the expected rates are identically zero; S / PL / M statistics are undefined
        for nm, fn in (("S", ce.spatial_test), ("PL", ce.pseudolikelihood_test), ("M", ce.magnitude_test)):
            f, obs, reg, mags = fresh()
            ok, res, tb = ctx.call(fn, f, obs, verbose=False)
            ctx.mon("e2e:" + nm, 1)
            if ok and res is not None and res.status == "normal" and n_obs > 0:
                q = res.quantile
                if all(isinstance(x, (int, float, numpy.floating)) and math.isfinite(float(x)) and 0 <= float(x) <= 1 for x in (q if isinstance(q, (tuple, list)) else [q])):
                    ctx.add("all_empty_forecast_numeric_quantile:" + nm)
        if nt:
            ctx.nt(digest((fc, source)))
        return
    # ---------------- S and PL
    for nm, fn, which in (("S", ce.spatial_test, 1), ("PL", ce.pseudolikelihood_test, 0))[::(-1 if (seed // 2) % 2 else 1)]:
        f, obs, reg, mags = fresh()
        ok, res, tb = ctx.call(fn, f, obs, verbose=False)
        ctx.mon("e2e:" + nm, 1)
        t2 = dict(tags, test=nm)
        if not ok:
            ctx.violate("%s-test raised" % nm, rc, observed=repr(res), tb=tb, tags=dict(t2, clause="raised", exc=type(res).__name__))
            continue
        if n_obs == 0:
            if nm == "PL":
                if res is not None:
                    ctx.violate("PL-test returns a result for an empty observed catalog (statistic undefined)", rc, observed=[res.status, res.quantile], expected=None,
                                tags=dict(t2, clause="empty-observation"))
            elif res.status != "not-valid" or any(isinstance(x, (float, numpy.floating)) and 0 <= float(x) <= 1 for x in res.quantile):
                ctx.violate("S-test does not signal an empty observed catalog explicitly", rc, observed=[res.status, res.quantile], expected=["not-valid", (-1, -1)],
                            tags=dict(t2, clause="empty-observation"))
            continue
        want = []
        for g in G:
            v = pl_stat(g.sum(axis=1), lam_s, nbar, n_obs)[which]
            if nm == "S" and math.isnan(v):
                continue            # empty synthetic catalogs: statistic undefined, skipped
            want.append(v)
        obs_v = pl_stat(obs_sp, lam_s, nbar, n_obs)[which]
        status = "normal"
        if obs_v == -math.inf:
            good = lam_s != 0
            obs_v = pl_stat(obs_sp[good], lam_s[good], nbar, n_obs)[which]
            status = "undersampled"
            if obs_sp[good].sum() == 0:
                if nm == "PL":
                    if res is not None:
                        ctx.violate("PL-test returns a result although no observed event lies in a sampled cell", rc, observed=[res.status, res.observed_statistic], expected=None,
                                    tags=dict(t2, clause="undersampled-none-left"))
                    continue
                status = "not-valid"
        if res is None:
            ctx.violate("%s-test returned no result for a valid observation" % nm, rc, expected=[status, obs_v], tags=dict(t2, clause="none-result"))
            continue
        cmp_dist(ctx, rc, tags, nm, res.test_distribution, want)
        if res.status != status:
            ctx.violate("%s-test status does not flag the observation correctly" % nm, rc, observed=res.status, expected=status, tags=dict(t2, clause="status"))
        if status == "not-valid":
            continue
        if not same(res.observed_statistic, obs_v) or not math.isfinite(float(res.observed_statistic)):
            ctx.violate("%s-test observed statistic differs from the documented definition" % nm, rc, observed=float(res.observed_statistic), expected=obs_v,
                        tags=dict(t2, clause="statistic", silent_infinite=not math.isfinite(float(res.observed_statistic))))
        elif want and tuple(map(float, res.quantile)) != qpair(list(res.test_distribution), float(res.observed_statistic)):
            # quantiles are the empirical probabilities (C09) of the result's own distribution and statistic (ties decided on the library's floats)
            ctx.violate("%s-test quantiles are not the empirical probabilities of the statistic" % nm, rc, observed=res.quantile,
                        expected=qpair(list(res.test_distribution), float(res.observed_statistic)), tags=dict(t2, clause="quantile"))
        elif status == "normal":
            twins = sum(1 for g in G if g.sum() > 0 and numpy.array_equal(g.sum(axis=1), obs_sp))
            check_twins(ctx, rc, t2, nm, res, twins)
    _run_mag(ctx, fc, source, seed, rc, ce, tags, G, O, J, n_obs, fresh)
    if nt:
        ctx.nt(digest((fc, source)))


def _run_mag(ctx, fc, source, seed, rc, ce, tags, G, O, J, n_obs, fresh):
    # ---------------- M, RM, MLL
    union = sum(G).sum(axis=0)
    n_u = float(union.sum())
    obs_h = O.sum(axis=0)
    for nm, fn in (("M", ce.magnitude_test), ("RM", ce.resampled_magnitude_test), ("MLL", ce.MLL_magnitude_test), ("MLLfull", ce.MLL_magnitude_test)):
        f, obs, reg, mags = fresh()
        kw = {"verbose": False}
        if nm != "M":
            kw["seed"] = seed
        if nm == "MLLfull":
            kw["full_calculation"] = True
        with simlog.RngLog() as rl:
            ok, res, tb = ctx.call(fn, f, obs, **kw)
        ctx.mon("e2e:" + nm.replace("full", ""), 1)
        t2 = dict(tags, test=nm)
        if not ok:
            ctx.violate("%s-test raised" % nm, rc, observed=repr(res), tb=tb, tags=dict(t2, clause="raised", exc=type(res).__name__))
            continue
        if n_obs == 0:
            if res.status != "not-valid" or res.observed_statistic is not None or any(x is not None for x in res.quantile):
                ctx.violate("%s-test does not signal an empty observed catalog explicitly" % nm, rc, observed=[res.status, res.observed_statistic, res.quantile],
                            expected=["not-valid", None, (None, None)], tags=dict(t2, clause="empty-observation"))
            continue
        scaled_union = union * (n_obs / n_u)
        if nm == "M":
            want = [m_stat(g.sum(axis=0) * (n_obs / g.sum()), scaled_union) for g in G if g.sum() > 0]
            obs_v = m_stat(obs_h, scaled_union)
        else:
            draws = rl.of("choice")
            hists = []
            edges = numpy.append(mags, mags.max() + 10)
            for fn_, a, out in draws:
                hists.append(numpy.histogram(numpy.asarray(out, dtype=float), bins=edges)[0].astype(float))
            if len(hists) != J:
                ctx.violate("%s-test does not resample once per synthetic catalog" % nm, rc, observed=len(hists), expected=J, tags=dict(t2, clause="resamples"))
                continue
            if nm == "RM":
                want = [m_stat(h * (n_obs / h.sum()), scaled_union) for h in hists]
                obs_v = m_stat(obs_h, scaled_union)
            else:
                want = [mll(union, h) for h in hists]
                obs_v = mll(union, obs_h)
        cmp_dist(ctx, rc, tags, nm, res.test_distribution, want)
        if not same(res.observed_statistic, obs_v):
            ctx.violate("%s-test observed statistic differs from the documented definition" % nm, rc, observed=float(res.observed_statistic), expected=obs_v,
                        tags=dict(t2, clause="statistic"))
        elif want and tuple(map(float, res.quantile)) != qpair(list(res.test_distribution), float(res.observed_statistic)):
            # quantiles are the empirical probabilities (C09) of the result's own distribution and statistic (ties decided on the library's floats)
            ctx.violate("%s-test quantiles are not the empirical probabilities of the statistic" % nm, rc, observed=res.quantile,
                        expected=qpair(list(res.test_distribution), float(res.observed_statistic)), tags=dict(t2, clause="quantile"))
        elif nm == "M":
            twins = sum(1 for g in G if g.sum() == n_obs and numpy.array_equal(g.sum(axis=0), obs_h))
            check_twins(ctx, rc, t2, nm, res, twins)
        if res.status != "normal":
            ctx.violate("%s-test status" % nm, rc, observed=res.status, expected="normal", tags=dict(t2, clause="status"))


def install(ctx):
    import csep.utils.calc as calc
    import csep.utils.stats as stats
    import csep.core.catalog_evaluations  # noqa

    def post_cl(ctx, args, kwargs, result, exc, caller):
        g, lam, nbar, n_obs = (list(args) + [None] * 4)[:4]
        if exc is not None or g is None:
            return
        g, lam = numpy.asarray(g, dtype=float), numpy.asarray(lam, dtype=float)
        want = pl_stat(g, lam, float(nbar), float(n_obs))
        if not (same(result[0], want[0]) and same(result[1], want[1])):
            ctx.violate("_compute_likelihood differs from the pseudo-likelihood / normalised spatial statistic definition", {"exec": "noop", "args": {}},
                        observed=[float(result[0]), float(result[1])], expected=list(want), tags={"clause": "prim", "fn": "_compute_likelihood"})
    monitor.wrap(ctx, calc, "_compute_likelihood", post_cl, mon_name="post:_compute_likelihood")

    def post_mll(ctx, args, kwargs, result, exc, caller):
        a = dict(zip(("union_catalog_counts", "catalog_counts"), args))
        a.update(kwargs)
        u, c = numpy.asarray(a["union_catalog_counts"], dtype=float), numpy.asarray(a["catalog_counts"], dtype=float)
        if exc is not None or u.sum() == 0 or c.sum() == 0:
            return
        if not same(result, mll(u, c)):
            ctx.violate("MLL_score differs from 2*[l(merged) - l(union') - l(catalog')]", {"exec": "noop", "args": {}}, observed=float(result), expected=mll(u, c),
                        tags={"clause": "prim", "fn": "MLL_score"})
    monitor.wrap(ctx, stats, "MLL_score", post_mll, mon_name="post:MLL_score")

    def post_csd(ctx, args, kwargs, result, exc, caller):
        if exc is not None:
            return
        a, b = numpy.asarray(args[0], dtype=float), numpy.asarray(args[1], dtype=float)
        if not same(result, math.fsum(((b - a) ** 2).tolist())):
            ctx.violate("cumulative_square_diff is not the sum of squared differences", {"exec": "noop", "args": {}}, tags={"clause": "prim", "fn": "cumulative_square_diff"})
    monitor.wrap(ctx, stats, "cumulative_square_diff", post_csd, mon_name="post:cumulative_square_diff")


def ex_noop(ctx):
    pass


EXECUTORS = {"case": ex_case, "noop": ex_noop}


def run(ctx):
    install(ctx)
    thorough = ctx.tier == "thorough"
    n = (72000 if thorough else 400) // ctx.nshards
    for j in range(n):
        r = ctx.rng("c10", j)
        fc = gen(r, empty_mode=[None, None, None, "some", "all"][j % 5] if j % 7 else "some")
        src = ["memory", "file_filtered", "file_store", "file_nostore", "memory_spatial", "file_filtered"][j % 6]
        ex_case(ctx, fc, src, seed=int(r.integers(0, 10 ** 6)))
        if j % 40 == 0:
            ctx.sample({"cells": fc["nx"] * fc["ny"], "mags": fc["nmag"], "synthetic_sizes": [len(c) for c in fc["cats"]][:12], "observed": fc["obs_mode"],
                        "n_observed": len(fc["obs"]), "source": src})
