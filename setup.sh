#!/bin/bash
# Offline setup: nothing to build. The checks use /venv/bin/python (the repository's own interpreter and
# dependencies) and import csep from /repo's working tree. This script only verifies that.
set -e
cd "$(dirname "$0")"
mkdir -p evidence replays
PYTHONDONTWRITEBYTECODE=1 PYTHONWARNINGS=ignore MPLBACKEND=Agg /venv/bin/python - <<'PY'
import sys
sys.path.insert(0, "/repo")
import numpy, scipy, csep
assert csep.__file__.startswith("/repo/"), csep.__file__
print("setup ok: python", sys.version.split()[0], "numpy", numpy.__version__, "scipy", scipy.__version__, "csep", csep.__file__)
PY
