#!/bin/bash
# tools/sweep.sh <tier> <seeds...> : run every claimed check for each seed, print one line per (check, seed)
T=$1; shift
cd "$(dirname "$0")/.."
for c in $(python3 -c "import json;print(' '.join(x['property_id'] for x in json.load(open('MANIFEST.json'))['checks']))"); do
  for s in "$@"; do
    out=$(VERIF_SEED=$s VERIF_SHOW=2 ./check $c $T 2>&1); rc=$?
    echo "$c seed=$s rc=$rc $(echo "$out" | tail -1 | cut -c1-160)"
    [ $rc -ne 0 ] && echo "$out" | grep -E "VIOLATION|INCONCLUSIVE|class:" | cut -c1-400 | head -6
  done
done
