"""C08 - paired T- and W-tests follow Rhoades et al. (2011) and are antisymmetric."""
import datetime
import math

import numpy
import scipy.special
import scipy.stats

from .. import gridcases, monitor
from ..core import digest, close

UTC = datetime.timezone.utc
META = {
    "title": "Paired T- and W-tests",
    "level": "exploration",
    "rule": ("pairs of positive-rate gridded forecasts on a common generated region (rates log-uniform 1e-8..10; proportional pairs; identical "
             "pairs) with catalogs of 2..200 in-region events (repeated cells -> ties, all in one cell), alpha in {0.01,0.05,0.3}, scale on/off with "
             "start/end times; each through paired_t_test, w_test, binary_paired_t_test in both orders and against itself. Non-trivial: >= 3 events "
             "with >= 2 distinct log-rate differences, or ties present; distinct = digest(case, test)."),
    "assumptions": ["independent implementation of Eq. 17/18 with math.fsum; Student-t quantile from scipy.special.stdtrit",
                    "W: own midranks + tie-corrected normal approximation without continuity correction (zeros dropped), cross-checked with scipy.stats.wilcoxon",
                    "tolerance 1e-9*(1+|x|); variance <= 0 (identical differences): only the gain clauses are decided"],
    "deciding": ["post:_t_test_ndarray", "post:_w_test_ndarray", "post:matrix_binary_t_test", "e2e:paired_t_test", "e2e:w_test", "e2e:binary_paired_t_test",
                 "metamorphic:swap", "post:target_event_rates"],
}
META["added"] = "Added: forecasts re-scaled earlier with scale=True, equal-rate event bins with different totals, events far above the last magnitude edge, history 'evaluate, filter the same catalog in place, evaluate again with the same forecast objects', shared object histories / layouts from gridcases. catalogs whose own region is not the forecasts' grid. single-precision magnitude columns."
MANIFEST = {
    "technique": "runtime post-conditions on the real T/W primitives and on target_event_rates/get_rates vs an independent implementation of Rhoades et al. Eq. 17/18 and a tie-corrected signed-rank oracle; boundary recorder on the three public tests incl. exceptions; swap / self-comparison metamorphic checks",
    "level_text": "Each generated forecast pair and catalog is run through the three public tests (both orders, self comparison); information gain, variance-derived t statistic, critical value, interval, signed-rank z and p are compared with independent formulas, per-event target rates with the reference cell/bin rates, and swap antisymmetry / symmetry is checked; any exception on an in-domain input is a violation.",
    "level_note": "Trusted: math.fsum, scipy.special.stdtrit, scipy.stats.norm.sf, reference gridding by construction. Forecast/catalog space sampled.",
}
WATCHDOG_S = {"quick": 900, "thorough": 5400}


def shards(tier):
    return 4 if tier == "quick" else 16


def t_ref(x, n_obs, na, nb, alpha):
    """x = ln rate_A - ln rate_B per event (or per active bin); returns dict of reference values."""
    N = float(n_obs)
    sx = math.fsum(x)
    ig = (sx - (na - nb)) / N
    out = {"ig": ig}
    if N < 2:
        return out
    var = math.fsum(v * v for v in x) / (N - 1) - sx * sx / (N * N - N)
    out["var"] = var
    scale_v = math.fsum(v * v for v in x) / (N - 1)
    if var <= 1e-12 * max(scale_v, 1e-300):
        return out
    sd = math.sqrt(var)
    # Eq. 18 is a difference of two sums of the size of the mean square: evaluated in double precision its relative error is about
    # (3N+4) eps x (mean square / variance).  The comparison tolerances of t and of the interval half-width carry that conditioning term
    # (false alarm 16: a sample with sd/mean ~ 1e-4 differed from the fsum reference by 2e-7 in t); beyond 1e-2 nothing is decided.
    out["var_rel_err"] = (3 * N + 4) * 2.220446049250313e-16 * scale_v / var
    out["half"] = float(scipy.special.stdtrit(N - 1, 1 - alpha / 2)) * sd / math.sqrt(N)
    out["t"] = ig / (sd / math.sqrt(N))
    out["tc"] = float(scipy.special.stdtrit(N - 1, 1 - alpha / 2))
    out["lo"] = ig - out["tc"] * sd / math.sqrt(N)
    out["hi"] = ig + out["tc"] * sd / math.sqrt(N)
    return out


def t_bad(ctx, got, ref):
    """Names of the T-test outputs that differ from the reference by more than the round-off of Eq. 18 explains."""
    e = ref["var_rel_err"]
    if e > 1e-2:
        ctx.add("t_interval_not_decided_variance_ill_conditioned")
        return [k for k in ("tc",) if not close(got[k], ref[k], rel=1e-7, abs_=1e-10)]
    bad = [k for k in ("t", "tc") if not close(got[k], ref[k], rel=1e-7 + (e if k == "t" else 0.0), abs_=1e-10)]
    bad += [k for k in ("lo", "hi") if not close(got[k], ref[k], rel=1e-7, abs_=1e-10 + e * ref["half"])]
    return bad


def w_ref(x, m):
    d = numpy.asarray(x, dtype=float) - m
    d = d[d != 0]
    n = d.size
    if n == 0:
        return None
    a = numpy.abs(d)
    order = numpy.argsort(a, kind="mergesort")
    ranks = numpy.empty(n)
    i = 0
    sa = a[order]
    tie_term = 0.0
    while i < n:
        j = i
        while j + 1 < n and sa[j + 1] == sa[i]:
            j += 1
        ranks[order[i:j + 1]] = (i + j) / 2.0 + 1.0
        t = j - i + 1
        if t > 1:
            tie_term += t * (t * t - 1)
        i = j + 1
    rp = float(ranks[d > 0].sum())
    rm = float(ranks[d < 0].sum())
    T = min(rp, rm)
    mn = n * (n + 1.0) * 0.25
    se = math.sqrt((n * (n + 1.0) * (2.0 * n + 1.0) - 0.5 * tie_term) / 24.0)
    if se == 0:
        return None
    z = (T - mn) / se
    return {"z": z, "p": 2.0 * float(scipy.stats.norm.sf(abs(z))), "n": n}


def install(ctx):
    import csep.core.forecasts as fo

    def post_ter(ctx, args, kwargs, result, exc, caller):
        self = args[0]
        if exc is not None:
            return
        cat = args[1] if len(args) > 1 else kwargs.get("target_catalog")
        scale = kwargs.get("scale", args[2] if len(args) > 2 else False)
        rates, total = result
        ref = getattr(self, "_verif_ref", None)
        if ref is None or getattr(cat, "_verif_cells", None) is None:
            ctx.add("target_event_rates_unannotated_calls")
            return
        data, days = ref
        want = data[cat._verif_cells[0], cat._verif_cells[1]]
        wtot = float(data.sum())
        if scale:
            want, wtot = want / days, wtot / days
        if numpy.shape(rates) != numpy.shape(want) or not numpy.allclose(numpy.asarray(rates, dtype=float), want, rtol=1e-12, atol=0) or \
                not close(float(total), wtot, rel=1e-12):
            ctx.violate("per-event target rates / forecast total do not match the rates of the events' cells and bins", {"exec": "noop", "args": {}},
                        observed={"rates": numpy.asarray(rates)[:5], "total": float(total)}, expected={"rates": want[:5], "total": wtot},
                        tags={"api": "target_event_rates", "scale": bool(scale)})
    monitor.wrap_method(ctx, fo.GriddedForecast, "target_event_rates", post_ter, mon_name="post:target_event_rates")
    import csep.core.poisson_evaluations as pe
    import csep.core.binomial_evaluations as be

    def mk_prim(binary):
        def post(ctx, args, kwargs, result, exc, caller):
            names = ("target_event_rates1", "target_event_rates2", "n_obs", "n_f1", "n_f2") + (("catalog",) if binary else ()) + ("alpha",)
            a = dict(zip(names, args))
            a.update(kwargs)
            r1 = numpy.asarray(a["target_event_rates1"], dtype=float).ravel()
            r2 = numpy.asarray(a["target_event_rates2"], dtype=float).ravel()
            if r1.size != r2.size or r1.size == 0 or numpy.any(r1 <= 0) or numpy.any(r2 <= 0):
                return
            N = r1.size if binary else a["n_obs"]
            if N < 2:
                return
            case = {"exec": "noop", "args": {}}
            tg = {"test": "binaryT" if binary else "T", "prim": True}
            if exc is not None:
                ctx.violate("T-test primitive raised", case, observed=repr(exc), tags=dict(tg, clause="raised"))
                return
            ref = t_ref((numpy.log(r1) - numpy.log(r2)).tolist(), N, float(a["n_f1"]), float(a["n_f2"]), float(a.get("alpha", 0.05)))
            if not close(float(result["information_gain"]), ref["ig"], rel=1e-9, abs_=1e-12):
                ctx.violate("information gain != [sum(ln rate_A - ln rate_B) - (N_A - N_B)]/N", case, observed=float(result["information_gain"]), expected=ref["ig"],
                            tags=dict(tg, clause="gain"))
            elif "t" in ref:
                got = {"t": float(result["t_statistic"]), "tc": float(result["t_critical"]), "lo": float(result["ig_lower"]), "hi": float(result["ig_upper"])}
                bad = t_bad(ctx, got, ref)
                if bad:
                    ctx.violate("t statistic / critical value / confidence interval differ from Rhoades et al. Eq. 17-18", case, observed=got,
                                expected={k: ref[k] for k in got}, tags=dict(tg, clause="t-" + "+".join(bad)))
        return post
    monitor.wrap(ctx, pe, "_t_test_ndarray", mk_prim(False), mon_name="post:_t_test_ndarray")
    monitor.wrap(ctx, be, "matrix_binary_t_test", mk_prim(True), mon_name="post:matrix_binary_t_test")


def _build_pair(case, ratesB, start, end, factors=(1.0, 1.0)):
    foreA, cat, reg, w = gridcases.build(case, name="A")
    foreB = gridcases.fixtures.gridded_forecast(numpy.array(ratesB, dtype=float), reg, foreA.magnitudes, name="B")
    for f, fac in zip((foreA, foreB), factors):
        f.start_time, f.end_time = start, end
        if fac != 1.0:
            # a forecast that was re-scaled earlier (scale() / scale_to_test_date()): it carries data = _data * factor
            f._data = f._data / fac
            f.scale(fac)
    days = (end - start).days
    foreA._verif_ref = (numpy.array(foreA.data, dtype=float), days)
    foreB._verif_ref = (numpy.array(foreB.data, dtype=float), days)
    order = case.get("event_order")
    ec, em = numpy.asarray(case["ev_cell"], dtype=int), numpy.asarray(case["ev_mag"], dtype=int)
    if order is not None:
        ec, em = ec[order], em[order]
    if case.get("history") == "inplace-reordered" and ec.size >= 2:
        ec, em = ec[::-1], em[::-1]          # gridcases.build reversed the stored event array in place
    cat._verif_cells = (ec, em)
    return foreA, foreB, cat, w


def _rebind(cat, case, cat_region):
    """The catalog's own region is not the forecasts' grid: none at all, or a larger collection region (one extra column to the west)."""
    if cat_region == "none":
        cat.region = None
    elif cat_region == "bigger":
        from decimal import Decimal
        mags_ = gridcases.fixtures.mag_bins(case["mag0"], case["dmag"], case["nmag"])
        cat.region = gridcases.fixtures.region(case["nx"] + 1, case["ny"], case["dh"], Decimal(case["ax"]) - Decimal(case["dh"]), case["ay"], magnitudes=mags_)
    return cat


def ex_pair(ctx, case, ratesB, alpha=0.05, scale=False, days=365, factors=(1.0, 1.0), cat_region="same"):
    import csep.core.poisson_evaluations as pe
    import csep.core.binomial_evaluations as be
    start = datetime.datetime(2010, 1, 1, tzinfo=UTC)
    end = start + datetime.timedelta(days=days)
    rc = {"exec": "pair", "args": {"case": case, "ratesB": ratesB, "alpha": alpha, "scale": scale, "days": days, "factors": list(factors),
                                   "cat_region": cat_region}}
    ctx.current_case = rc
    factors = tuple(factors)
    _fa, _fb, _c, _w = _build_pair(case, ratesB, start, end, factors)
    A = numpy.array(_fa.data, dtype=float)          # the rates the forecasts actually carry
    B = numpy.array(_fb.data, dtype=float)
    ec, em = numpy.asarray(case["ev_cell"], dtype=int), numpy.asarray(case["ev_mag"], dtype=int)
    n = ec.size
    div = float(days) if scale else 1.0
    x = (numpy.log(A[ec, em] / div) - numpy.log(B[ec, em] / div)).tolist()
    na, nb = float(A.sum()) / div, float(B.sum()) / div
    ties = len(set(x)) < len(x)
    tags = {"alpha": alpha, "scale": scale, "ties": ties, "identical": bool(numpy.array_equal(A, B)), "rescaled_forecasts": factors != (1.0, 1.0),
            "catalog_region": cat_region}
    ctx.count(3)

    def run(fn, fa, fb, cat, **kw):
        return ctx.call(fn, fa, fb, cat, **kw)

    # ---------------- T test
    foreA, foreB, cat, w = _build_pair(case, ratesB, start, end, factors)
    _rebind(cat, case, cat_region)
    ok, res, tb = run(pe.paired_t_test, foreA, foreB, cat, alpha=alpha, scale=scale)
    ctx.mon("e2e:paired_t_test", 1)
    ref = t_ref(x, n, na, nb, alpha)
    if not ok:
        ctx.violate("paired_t_test raised on two positive-rate forecasts and >= 2 in-region events", rc, observed=repr(res), tb=tb,
                    tags=dict(tags, test="T", clause="raised", exc=type(res).__name__))
    else:
        check_t(ctx, rc, dict(tags, test="T"), res, ref)
        fa2, fb2, cat2, _ = _build_pair(case, ratesB, start, end, factors)
        _rebind(cat2, case, cat_region)
        ok2, res2, tb2 = run(pe.paired_t_test, fb2, fa2, cat2, alpha=alpha, scale=scale)
        ctx.mon("metamorphic:swap", 1)
        if ok2 and "t" in ref:
            pairs = [(res2.observed_statistic, -res.observed_statistic), (res2.quantile[0], -res.quantile[0]),
                     (res2.test_distribution[0], -res.test_distribution[1]), (res2.test_distribution[1], -res.test_distribution[0]),
                     (res2.quantile[1], res.quantile[1])]
            if not all(close(float(a), float(b), rel=1e-9, abs_=1e-12) for a, b in pairs):
                ctx.violate("swapping the forecasts does not negate gain/statistic and mirror the interval", rc,
                            observed=[float(a) for a, b in pairs], expected=[float(b) for a, b in pairs], tags=dict(tags, test="T", clause="swap"))
        fa3, _, cat3, _ = _build_pair(case, case["rates"], start, end, (factors[0], factors[0]))
        fb3 = _build_pair(case, case["rates"], start, end, (factors[0], factors[0]))[0]
        ok3, res3, tb3 = run(pe.paired_t_test, fa3, fb3, cat3, alpha=alpha, scale=scale)
        if ok3 and abs(float(res3.observed_statistic)) > 1e-12:
            ctx.violate("a forecast compared with itself has non-zero information gain", rc, observed=float(res3.observed_statistic), expected=0.0,
                        tags=dict(tags, test="T", clause="self"))
    # ---------------- history: the same forecast objects, the same catalog object filtered in place, evaluated again
    keep = em >= 1
    if ok and case["nmag"] >= 2 and 2 <= int(keep.sum()) < n and cat_region == "same":
        mags_ = gridcases.fixtures.mag_bins(case["mag0"], case["dmag"], case["nmag"])
        ec_c, em_c = cat._verif_cells
        cat._verif_cells = (ec_c[em_c >= 1], em_c[em_c >= 1])          # the per-event annotation follows the (order-preserving) filter
        okf, _r, tbf = ctx.call(cat.filter, "magnitude >= %r" % float(mags_[1]))
        if okf and cat.event_count == int(keep.sum()):
            x2 = [v for v, k_ in zip(x, keep.tolist()) if k_]
            n2 = len(x2)
            ctx.mon("history:catalog-filtered-in-place-between-evaluations", 1)
            ok2, res2, tb2 = run(pe.paired_t_test, foreA, foreB, cat, alpha=alpha, scale=scale)
            if not ok2:
                ctx.violate("paired_t_test raised after the catalog was filtered in place", rc, observed=repr(res2), tb=tb2,
                            tags=dict(tags, test="T", clause="raised", history="evaluate, filter catalog in place, evaluate again"))
            else:
                check_t(ctx, rc, dict(tags, test="T", history="evaluate, filter catalog in place, evaluate again"), res2, t_ref(x2, n2, na, nb, alpha))
            w2 = w_ref(x2, (float(A.sum()) - float(B.sum())) / n2)
            ok3, res3, tb3 = run(pe.w_test, foreA, foreB, cat, scale=scale)
            if ok3 and w2 is not None and not (close(float(res3.observed_statistic), w2["z"], rel=1e-9, abs_=1e-12) and
                                               close(float(res3.quantile), w2["p"], rel=1e-9, abs_=1e-12)):
                ctx.violate("W-test z / p are not the tie-corrected signed-rank values about (N_A-N_B)/N", rc,
                            observed={"z": float(res3.observed_statistic), "p": float(res3.quantile)}, expected=w2,
                            tags=dict(tags, test="W", clause="value", history="evaluate, filter catalog in place, evaluate again"))
    # ---------------- W test
    foreA, foreB, cat, w = _build_pair(case, ratesB, start, end, factors)
    m = (na - nb) / n       # the library uses the unscaled totals; identical ratio when both are scaled
    m_lib = (float(A.sum()) - float(B.sum())) / n
    wref = w_ref(x, m_lib)
    in_domain_w = wref is not None
    _rebind(cat, case, cat_region)
    ok, res, tb = run(pe.w_test, foreA, foreB, cat, scale=scale)
    ctx.mon("e2e:w_test", 1)
    if not ok:
        if in_domain_w:
            ctx.violate("w_test raised on two positive-rate forecasts and >= 2 in-region events", rc, observed=repr(res), tb=tb,
                        tags=dict(tags, test="W", clause="raised", exc=type(res).__name__))
    elif in_domain_w:
        z, p = float(res.observed_statistic), float(res.quantile)
        if not (close(z, wref["z"], rel=1e-9, abs_=1e-12) and close(p, wref["p"], rel=1e-9, abs_=1e-12) and 0.0 <= p <= 1.0):
            ctx.violate("W-test z / p are not the tie-corrected signed-rank values about (N_A-N_B)/N", rc, observed={"z": z, "p": p}, expected=wref,
                        tags=dict(tags, test="W", clause="value"))
        fa2, fb2, cat2, _ = _build_pair(case, ratesB, start, end, factors)
        ok2, res2, tb2 = run(pe.w_test, fb2, fa2, cat2, scale=scale)
        ctx.mon("metamorphic:swap", 1)
        if ok2 and not (close(float(res2.observed_statistic), z, rel=1e-9, abs_=1e-12) and close(float(res2.quantile), p, rel=1e-9, abs_=1e-12)):
            ctx.violate("W-test changes when the forecasts are swapped", rc, observed=[float(res2.observed_statistic), float(res2.quantile)],
                        expected=[z, p], tags=dict(tags, test="W", clause="swap"))
        if wref["n"] >= 10 and len(set(numpy.abs(numpy.asarray(x) - m_lib))) == wref["n"]:
            try:
                sp = scipy.stats.wilcoxon(numpy.asarray(x) - m_lib, correction=False, method="asymptotic", zero_method="wilcox").pvalue
                if abs(sp - wref["p"]) > 1e-9:
                    ctx.inconc("W oracle disagrees with scipy.stats.wilcoxon: %r vs %r" % (wref["p"], sp))
                ctx.mon("oracle-crosscheck:scipy.wilcoxon", 1)
            except Exception:  # noqa
                pass
    # ---------------- binary T test
    foreA, foreB, cat, w = _build_pair(case, ratesB, start, end, factors)
    act = numpy.nonzero(w.ravel())[0]
    xb = (numpy.log(A.ravel()[act]) - numpy.log(B.ravel()[act])).tolist()
    refb = t_ref(xb, len(act), na, nb, alpha)
    ok, res, tb = run(be.binary_paired_t_test, foreA, foreB, cat, alpha=alpha, scale=scale)
    ctx.mon("e2e:binary_paired_t_test", 1)
    if not ok:
        ctx.violate("binary_paired_t_test raised on two positive-rate forecasts and >= 2 in-region events", rc, observed=repr(res), tb=tb,
                    tags=dict(tags, test="binaryT", clause="raised", exc=type(res).__name__))
    elif len(act) >= 2:
        check_t(ctx, rc, dict(tags, test="binaryT"), res, refb)
    if ctx.evaluations % 199 == 0 and "t" in ref:
        ctx.sample({"n_events": n, "log_rate_differences_head": x[:5], "N_A": na, "N_B": nb, "alpha": alpha, "scale": scale, "factors": list(factors),
                    "reference": {k: ref[k] for k in ("ig", "t", "tc", "lo", "hi")}, "w_reference": wref})
    if (n >= 3 and len(set(x)) >= 2) or ties:
        ctx.nt(digest((case["rates"], ratesB, case["ev_cell"], case["ev_mag"], alpha, scale)))


def check_t(ctx, rc, tags, res, ref):
    ig = float(res.observed_statistic)
    if not close(ig, ref["ig"], rel=1e-9, abs_=1e-12):
        ctx.violate("information gain != [sum(ln rate_A - ln rate_B) - (N_A - N_B)]/N", rc, observed=ig, expected=ref["ig"], tags=dict(tags, clause="gain"))
        return
    if "t" not in ref:
        return
    got = {"t": float(res.quantile[0]), "tc": float(res.quantile[1]), "lo": float(res.test_distribution[0]), "hi": float(res.test_distribution[1])}
    bad = t_bad(ctx, got, ref)
    if bad:
        ctx.violate("t statistic / critical value / confidence interval differ from Rhoades et al. Eq. 17-18", rc, observed=got,
                    expected={k: ref[k] for k in got}, tags=dict(tags, clause="t-" + "+".join(bad)))


def ex_prims(ctx, x, m):
    """Primitive W on a raw sample (ties, zeros)."""
    import csep.core.poisson_evaluations as pe
    x = numpy.asarray(x, dtype=float)
    ok, r, tb = ctx.call(pe._w_test_ndarray, x, m)
    ctx.mon("post:_w_test_ndarray", 1)
    ref = w_ref(x, m)
    rc = {"exec": "prims", "args": {"x": x, "m": m}}
    ctx.current_case = rc
    ctx.count(1)
    if ref is None:
        return
    if not ok:
        ctx.violate("_w_test_ndarray raised", rc, observed=repr(r), tb=tb, tags={"test": "W", "clause": "raised", "exc": type(r).__name__})
    elif not (close(float(r["z_statistic"]), ref["z"], rel=1e-9, abs_=1e-12) and close(float(r["probability"]), ref["p"], rel=1e-9, abs_=1e-12)):
        ctx.violate("signed-rank z / p differ from the tie-corrected reference", rc, observed=r, expected=ref, tags={"test": "W", "clause": "value", "prim": True})


def ex_noop(ctx):
    pass


EXECUTORS = {"pair": ex_pair, "prims": ex_prims, "noop": ex_noop}


def run(ctx):
    install(ctx)
    thorough = ctx.tier == "thorough"
    n = (500000 if thorough else 1500) // ctx.nshards
    for j in range(n):
        r = ctx.rng("c08", j)
        case = gridcases.gen_case(r, max_cells=30, max_mag=5, max_events=200 if j % 10 == 0 else 40, zero_frac=0.0, rate_lo=-8, rate_hi=1,
                                  events_in_zero=False)
        ne = len(case["ev_cell"])
        if ne < 2:
            k = int(r.integers(2, 6))
            nc, nm = len(case["rates"]), case["nmag"]
            case["ev_cell"] = r.integers(0, nc, k).tolist()
            case["ev_mag"] = r.integers(0, nm, k).tolist()
            case["frac"] = r.uniform(0.2, 0.8, (k, 2)).tolist()
            case["magoff"] = r.uniform(0.1, 0.9, k).tolist()
        if j % 6 == 0:       # all events in one cell
            case["ev_cell"] = [case["ev_cell"][0]] * len(case["ev_cell"])
            case["ev_mag"] = [case["ev_mag"][0]] * len(case["ev_mag"])
            case["magoff"] = [min(0.9, case["magoff"][0])] * len(case["ev_mag"]) if case["ev_mag"][0] != case["nmag"] - 1 else [case["magoff"][0]] * len(case["ev_mag"])
        A = numpy.array(case["rates"])
        kind = j % 5
        if kind == 4:
            # same rates in the bins that hold events, different elsewhere: zero log-rate differences but N_A != N_B
            B = A * 10 ** r.normal(0, 0.5, A.shape)
            ec_, em_ = numpy.asarray(case["ev_cell"]), numpy.asarray(case["ev_mag"])
            half = r.uniform(size=ec_.size) < 0.6
            B[ec_[half], em_[half]] = A[ec_[half], em_[half]]
        elif kind == 0:
            B = 10 ** r.uniform(-8, 1, A.shape)
        elif kind == 1:
            B = A * float(r.uniform(0.2, 5))          # proportional
        elif kind == 2:
            B = A.copy()                              # identical
        else:
            B = A * 10 ** r.normal(0, 0.3, A.shape)
        factors = (1.0, 1.0) if j % 4 else (float(r.choice([0.5, 2.0, 0.25])), float(r.choice([0.5, 3.0, 1.0])))
        ex_pair(ctx, case, B.tolist(), alpha=float(r.choice([0.01, 0.05, 0.3])), scale=bool(j % 3 == 0), days=int(r.choice([1, 30, 365, 1826])), factors=factors,
                cat_region=["same", "same", "none", "bigger"][j % 4])
        if j % 100 == 0:
            ctx.sample({"cells": len(case["rates"]), "mags": case["nmag"], "n_events": len(case["ev_cell"]), "pair_kind": ["independent", "proportional", "identical", "perturbed", "equal-in-event-bins"][kind]})
    for j in range((100000 if thorough else 400) // ctx.nshards):
        r = ctx.rng("c08w", j)
        k = int(r.integers(2, 60))
        x = numpy.round(r.normal(0, 1, k), int(r.integers(0, 3)))
        ex_prims(ctx, x, float(r.choice([0.0, 0.1, float(x[0])])))
        ctx.nt(digest(("w", ctx.seed, ctx.shard, j)))
