"""C05 - Poisson L / CL / S / M statistics equal the Poisson joint log-likelihood.

The simulated catalogs are invisible in the result, so this is a trace property: the recorder around
poisson_evaluations._simulate_catalog captures every simulated count array in order; the offline checker
aligns result.test_distribution[j] with simulated catalog j and evaluates an independent log-pmf sum.
"""
import math

import numpy

from .. import gridcases, monitor, simlog
from ..core import digest, close

META = {
    "title": "Poisson L/CL/S/M statistics = Poisson joint log-likelihood",
    "level": "exploration",
    "rule": ("generated (forecast, catalog) pairs on 1..40 cells x 1..8 magnitude bins, rates log-uniform 1e-12..1e3 (4 rate "
             "families), 0-30% zero bins incl. leading/trailing runs, 0..120 events (several per bin, N_obs <<,~,>> N_fore, events in "
             "zero-rate bins on purpose), C- and Fortran-ordered / non-contiguous rate arrays, scaled forecasts; each driven through "
             "likelihood_test, conditional_likelihood_test, spatial_test, magnitude_test with seeds and with injected random numbers. "
             "Non-trivial: some bin holds >= 2 events, or a zero-rate bin exists, or N_obs != round(N_fore); distinct = digest(rates, counts, test)."),
    "assumptions": ["reference log-pmf sum by math.lgamma/math.fsum, cross-checked with scipy.stats.poisson.logpmf",
                    "tolerance 1e-9*(1+sum|terms|)", "events strictly inside cells/bins: reference gridding known by construction"],
    "deciding": ["trace:observed_statistic", "trace:test_distribution[j]~simulated_catalog[j]"],
}
META["added"] = 'Added: per-simulation prescribed-count clause, low-rate L-tests (Poisson draw often 0), tiny-rate bins holding events, catalogs gridded on another region before the test, shared object histories / layouts from gridcases (regridded or in-place re-ordered catalogs, Fortran / transposed tables). array-valued scale factors. evaluated / re-scaled / evaluated histories, on-edge magnitudes. M-test with a catalog bound to other magnitude bins; single-precision magnitude columns; three-decimal magnitude grids.'
MANIFEST = {
    "technique": "boundary event log around the real _simulate_catalog + offline trace checker aligning test_distribution[j] with simulated catalog j; independent log-pmf oracle on observed statistic of the four public tests",
    "level_text": "For each generated forecast/catalog pair the four public Poisson tests run for real; the observed statistic and every test-distribution entry (aligned with the recorded simulated catalogs) are compared with an independent Poisson log-pmf sum; -inf iff an event lies in a zero-rate bin is decided exactly.",
    "level_note": "Trusted: math.lgamma/fsum, scipy logpmf cross-check, the reference gridding by construction. Rates/catalog space is sampled.",
}
WATCHDOG_S = {"quick": 900, "thorough": 5400}
TESTS = ("L", "CL", "S", "M")


def shards(tier):
    return 4 if tier == "quick" else 16


def lam_w_for(test, rates, w):
    """(lambda array, observed counts) whose Poisson log-pmf sum the test must report."""
    rates = numpy.asarray(rates, dtype=float)
    n_obs = float(w.sum())
    n_fore = float(rates.sum())
    if test in ("L", "CL"):
        return rates, w
    if test == "S":
        return rates.sum(axis=1) * (n_obs / n_fore), w.sum(axis=1)
    return rates.sum(axis=0) * (n_obs / n_fore), w.sum(axis=0)


def ex_case(ctx, case, test="L", num_sim=5, seed=1, inject=False, layout="C", scale=None, pre=None):
    import csep.core.poisson_evaluations as pe
    fore, cat, reg, w = gridcases.build(case)
    if pre == "regridded" and reg.num_nodes > 1:
        # history: the same catalog object was gridded on another region (same cells, listed in reverse) before being bound to the forecast's
        from csep.core.regions import CartesianGrid2D
        other = CartesianGrid2D.from_origins(reg.origins()[::-1].copy(), dh=reg.dh, magnitudes=reg.magnitudes)
        cat.region = other
        ctx.call(cat.spatial_counts)
        ctx.call(cat.spatial_magnitude_counts)
        cat.region = fore.region
        ctx.mon("history:catalog-regridded-before-test", 1)
    rates = numpy.array(case["rates"], dtype=float)
    if layout == "F":
        fore._data = numpy.asfortranarray(fore._data)
    elif layout == "T":
        fore._data = numpy.ascontiguousarray(fore._data.T).T           # transposed view of a mags-major table
    elif layout == "strided":
        big = numpy.zeros((rates.shape[0], rates.shape[1] * 2))
        big[:, ::2] = rates
        fore._data = big[:, ::2]
    scale_tag = scale
    if isinstance(scale, str):
        # scale() is documented for "int, float, or ndarray": per-cell, per-magnitude-bin and full-table factors (incl. a 0/1-free mask-like table)
        shp = {"percell": (rates.shape[0], 1), "permag": (rates.shape[1],), "full": rates.shape}[scale]
        scale = numpy.random.default_rng([seed, 55]).uniform(0.2, 3.0, shp)
    if scale is not None:
        fore._data = fore._data / scale
        fore.scale(scale)
        rates = (rates / scale) * scale
    fn = {"L": pe.likelihood_test, "CL": pe.conditional_likelihood_test, "S": pe.spatial_test, "M": pe.magnitude_test}[test]
    if test == "M" and seed % 4 == 1 and pre is None:
        # the catalog is bound to a region object with the same cells but OTHER magnitude bins: the M-test grids the observation on the
        # forecast's magnitude bins
        from csep.core.regions import CartesianGrid2D
        cat.region = CartesianGrid2D.from_origins(reg.origins().copy(), dh=reg.dh, magnitudes=numpy.asarray(reg.magnitudes) - 0.5 * float(case["dmag"]) - 1.0)
    if pre == "rescaled-after-evaluation":
        # history on one forecast object: evaluated under another scale factor, re-scaled to the factor in force, evaluated again
        s0 = fore._scale
        fore.scale(numpy.asarray(s0) * 0.37)
        ctx.call(fn, fore, cat, num_simulations=1, seed=0)
        fore.scale(s0)
        ctx.mon("history:evaluated-rescaled-evaluated", 1)
    lam, wobs = lam_w_for(test, rates, w)
    rc = {"exec": "case", "args": {"case": case, "test": test, "num_sim": num_sim, "seed": seed, "inject": inject, "layout": layout,
                                   "scale": scale_tag, "pre": pre}}
    n_obs = int(w.sum())
    kw = {"num_simulations": num_sim, "seed": seed}
    zero_draws = 0
    if inject and test != "L":
        kw["random_numbers"] = numpy.random.default_rng([seed, 5]).uniform(0, 1, (num_sim, n_obs))
        if seed % 3 == 0 and n_obs:
            # the smallest legal uniform number, 0.0, for the first event(s) of every simulation: it belongs to the first bin with a positive
            # rate, whatever the rates are - the one placement that needs no arithmetic to predict (boundary placement in general is C06's)
            zero_draws = 1 + (seed // 3) % min(n_obs, 2)
            kw["random_numbers"][:, :zero_draws] = 0.0
    has_zero = bool(numpy.any(lam == 0))
    ev_in_zero = bool(numpy.any((numpy.asarray(lam) == 0) & (numpy.asarray(wobs) > 0)))
    tags = {"test": test, "layout": layout, "zero_bins": has_zero, "event_in_zero_bin": ev_in_zero, "n_obs": min(n_obs, 3),
            "scaled": scale is not None, "array_scale": isinstance(scale_tag, str), "inject": bool(inject), "history": pre}
    with simlog.RngLog() as rl, simlog.SimLog(pe, "poisson", rl) as sl:
        ok, res, tb = ctx.call(fn, fore, cat, **kw)
    ctx.count(1)
    if not ok:
        if isinstance(res, IndexError) and has_zero:
            pass
        ctx.violate("test raised", rc, observed=repr(res), tb=tb, tags=dict(tags, exc=type(res).__name__))
        return
    ref, scale_t = gridcases.poisson_ll(lam, wobs)
    ctx.mon("trace:observed_statistic", 1)
    obs = float(res.observed_statistic)
    if ev_in_zero:
        if obs != -math.inf:
            ctx.violate("statistic finite although an event lies in a zero-rate bin", rc, observed=obs, expected=-math.inf, tags=tags)
    elif not math.isfinite(obs):
        ctx.violate("statistic not finite although no event lies in a zero-rate bin", rc, observed=obs, expected=ref, tags=tags)
    elif not close(obs, ref, rel=1e-9, scale=scale_t):
        ctx.violate("observed statistic != Poisson joint log-likelihood", rc, observed=obs, expected=ref, tags=tags)
    else:
        ref2 = gridcases.poisson_ll_scipy(lam, wobs)
        if math.isfinite(ref2) and not close(ref, ref2, rel=1e-8, scale=scale_t):
            ctx.inconc("oracles disagree: fsum %r vs scipy %r" % (ref, ref2))
    # --- trace alignment
    td = list(res.test_distribution)
    if len(td) != num_sim or len(sl.calls) != num_sim:
        ctx.violate("test distribution length != number of simulations", rc, observed=[len(td), len(sl.calls)], expected=num_sim, tags=tags)
        return
    shape = numpy.asarray(lam).shape
    for j, (entry, val) in enumerate(zip(sl.calls, td)):
        if "result" not in entry:
            continue
        simw = entry["result"].reshape(shape)
        if float(simw.sum()) != float(entry["n"]):
            ctx.violate("simulated catalog j does not hold the number of events that was prescribed for it", rc,
                        observed={"j": j, "events": float(simw.sum())}, expected=entry["n"], tags=dict(tags, clause="sim-count", prescribed_zero=entry["n"] == 0))
            break
        if zero_draws:
            flat, lamf = simw.ravel(), numpy.asarray(lam, dtype=float).ravel()
            first_pos = int(numpy.nonzero(lamf > 0)[0][0]) if (lamf > 0).any() else None
            ctx.mon("trace:draw-0.0-lands-in-first-positive-rate-bin", 1)
            if first_pos is not None and flat[first_pos] < zero_draws:
                ctx.violate("a simulated event drawn with the uniform number 0.0 is not in the first bin with a positive rate", rc,
                            observed={"j": j, "count_there": float(flat[first_pos]), "nonzero_bins": numpy.nonzero(flat)[0][:6]},
                            expected={"first_positive_rate_bin": first_pos, "at_least": zero_draws}, tags=dict(tags, clause="zero-draw", leading_zero_rate_bins=first_pos))
                break
        rj, sj = gridcases.poisson_ll(lam, simw)
        ctx.mon("trace:test_distribution[j]~simulated_catalog[j]", 1)
        v = float(val)
        if not close(v, rj, rel=1e-9, scale=sj if math.isfinite(sj) else None):
            ctx.violate("test_distribution[j] != log-likelihood of simulated catalog j", rc, observed={"j": j, "value": v},
                        expected=rj, tags=dict(tags, sim_in_zero=not math.isfinite(rj)))
            break
    # quantile = fraction of simulated <= observed
    q = float(res.quantile)
    qref = sum(1 for v in td if float(v) <= obs) / float(num_sim)
    if q != qref or not (0.0 <= q <= 1.0):
        ctx.violate("quantile != fraction of simulated statistics <= observed", rc, observed=q, expected=qref, tags=tags)
    if ctx.evaluations % 97 == 0:
        ctx.sample({"test": test, "layout": layout, "lambda_head": numpy.asarray(lam).ravel()[:6], "observed_counts_head": numpy.asarray(wobs).ravel()[:6],
                    "n_obs": n_obs, "observed_statistic": obs, "reference_log_pmf_sum": ref, "test_distribution": [float(v) for v in td[:4]],
                    "first_simulated_catalog_nonzero_bins": numpy.nonzero(sl.calls[0]["result"])[0][:8] if sl.calls and "result" in sl.calls[0] else None})
    nt = bool((numpy.asarray(wobs) >= 2).any() or has_zero or n_obs != round(float(numpy.sum(rates))))
    if nt:
        ctx.nt(digest((case["rates"], case["ev_cell"], case["ev_mag"], test, layout)))


EXECUTORS = {"case": ex_case}


def install(ctx):
    pass


def run(ctx):
    thorough = ctx.tier == "thorough"
    n = (400000 if thorough else 2000) // ctx.nshards
    for j in range(n):
        r = ctx.rng("c05", j)
        case = gridcases.gen_case(r)
        layout = ["C", "C", "F", "T", "strided"][j % 5]
        scale = None if j % 4 else (float(r.choice([0.5, 2.0, 10.0])) if j % 8 else str(r.choice(["percell", "permag", "full"])))
        for test in TESTS:
            ex_case(ctx, case, test, num_sim=int(r.choice([1, 3, 6])), seed=int(r.integers(0, 1000)), inject=bool(j % 3 == 0),
                    layout=layout, scale=scale, pre="regridded" if j % 6 == 1 else ("rescaled-after-evaluation" if j % 6 == 4 else None))
        if j % 50 == 0:
            ctx.sample({"cells": case["nx"] * case["ny"], "mags": case["nmag"], "n_events": len(case["ev_cell"]),
                        "rates_first_row": case["rates"][0][:4], "total_rate": float(numpy.sum(case["rates"])),
                        "zero_bins": int((numpy.array(case["rates"]) == 0).sum()), "layout": layout, "scale": scale, "tests": TESTS})
    # low-rate forecasts: the L-test's Poisson draw is often 0 (empty simulated catalogs between non-empty ones)
    for j in range((20000 if thorough else 80) // ctx.nshards):
        r = ctx.rng("c05low", j)
        case = gridcases.gen_case(r, max_cells=12, max_mag=3, max_events=6, zero_frac=0.0, events_in_zero=False)
        rates = numpy.array(case["rates"])
        case["rates"] = (rates / rates.sum() * float(r.uniform(0.3, 2.5))).tolist()
        ex_case(ctx, case, "L", num_sim=int(r.choice([8, 20])), seed=j)
        ex_case(ctx, case, "S", num_sim=3, seed=j)
    # tiny-rate bins holding events (rates down to 1e-12 are in the domain)
    for j in range((40000 if thorough else 200) // ctx.nshards):
        r = ctx.rng("c05tiny", j)
        case = gridcases.gen_case(r, max_cells=12, max_mag=3, max_events=10, zero_frac=0.0, events_in_zero=False)
        rates = numpy.array(case["rates"])
        if len(case["ev_cell"]):
            rates[case["ev_cell"][0], case["ev_mag"][0]] = 10 ** r.uniform(-12, -7)
            case["rates"] = rates.tolist()
        for test in TESTS:
            ex_case(ctx, case, test, num_sim=2, seed=j)
    # a whole cell (or a whole magnitude bin) at 1e-12 per bin holding one of very few events, under a forecast total of ~1e4..1e5: the S- / M-test
    # marginal normalised by N_obs / N_fore falls to ~1e-17 - a positive rate all the same (the statistic is finite: no event lies in a zero-rate bin)
    for j in range((20000 if thorough else 120) // ctx.nshards):
        r = ctx.rng("c05range", j)
        case = gridcases.gen_case(r, max_cells=40, max_mag=8, max_events=2, zero_frac=0.0, events_in_zero=False)
        rates = numpy.array(case["rates"])
        if not len(case["ev_cell"]) or rates.shape[0] < 2 or rates.shape[1] < 2:
            continue
        rates = r.uniform(300.0, 1000.0, rates.shape)          # every other bin near the top of the stated rate range
        if j % 2:
            rates[case["ev_cell"][0], :] = 1e-12
        else:
            rates[:, case["ev_mag"][0]] = 1e-12
        case["rates"] = rates.tolist()
        ctx.mon("workload:tiny-normalised-marginal", 1)
        for test in TESTS:
            ex_case(ctx, case, test, num_sim=2, seed=j, inject=bool(j % 4 < 2))
