#!/bin/bash
# tools/sweep_some.sh <tier> <seed> <Cxx...> : like sweep.sh for the listed checks only
T=$1; S=$2; shift 2
cd "$(dirname "$0")/.."
for c in "$@"; do
  out=$(VERIF_SEED=$S VERIF_SHOW=2 ./check $c $T 2>&1); rc=$?
  echo "$c seed=$S rc=$rc $(echo "$out" | tail -1 | cut -c1-160)"
  [ $rc -ne 0 ] && echo "$out" | grep -E "VIOLATION|INCONCLUSIVE|class:" | cut -c1-400 | head -6
done
