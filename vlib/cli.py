"""./check <Cxx> <quick|thorough> [--replay FILE]   (internal: --shard i/n --out FILE)

Parent: spawns the shards of the property's workload as subprocesses (subprocess.run with a
timeout each - never multiprocessing.Pool, which hangs when a child dies), merges their ledgers,
classifies violations against known_findings.json, writes evidence/<id>.json and prints the
verdict:   exit 0 held on what was observed | exit 1 + VIOLATION lines | exit 2 INCONCLUSIVE.
"""
import concurrent.futures
import importlib
import json
import os
import shutil
import subprocess
import sys
import tempfile
import time
import traceback

from . import core, findings


def load_prop(pid):
    try:
        return importlib.import_module("vlib.props.%s" % pid.lower())
    except ModuleNotFoundError as e:
        if "vlib.props" in str(e):
            print("no check built for %s" % pid)
            sys.exit(3)
        raise


def run_shard(pid, tier, seed, shard, nshards, out):
    core.setup_repo_import()
    mod = load_prop(pid)
    ctx = core.Ctx(pid, tier, seed, shard, nshards)
    core.set_process_time_zone(ctx)          # every check: shard k runs under the k-th process time zone (no property may depend on it)
    try:
        mod.run(ctx)
    except Exception as e:  # harness fault -> inconclusive, never a silent pass
        ctx.inconc("harness exception in shard %d: %r\n%s" % (shard, e, traceback.format_exc(limit=10)))
    with open(out, "w") as f:
        json.dump(ctx.partial(), f)
    return 0


def do_replay(pid, path):
    core.setup_repo_import()
    mod = load_prop(pid)
    with open(path) as f:
        v = json.load(f)
    ctx = core.Ctx(pid, v.get("tier", "quick"), v.get("seed", 0), v.get("shard", 0), v.get("nshards", 1), replay=True)
    core.set_process_time_zone(ctx)
    if hasattr(mod, "install"):
        mod.install(ctx)
    case = v["case"]
    fn = mod.EXECUTORS.get(case["exec"])
    if fn is None:
        # a contract installed by a sibling's oracle (e.g. the 1-D binning contract evaluated inside C01 / C03 workloads) names that sibling's executor
        import glob
        for path in sorted(glob.glob(os.path.join(os.path.dirname(os.path.abspath(__file__)), "props", "c[0-9][0-9].py"))):
            other = load_prop(os.path.basename(path)[:-3].upper())
            if case["exec"] in getattr(other, "EXECUTORS", {}):
                fn = other.EXECUTORS[case["exec"]]
                break
    if fn is None:
        print("INCONCLUSIVE property=%s replay names an unknown executor %r" % (pid, case["exec"]))
        return 2
    try:
        fn(ctx, **case["args"])
    except Exception as e:  # noqa  (a crash of the harness while replaying is not a verdict on the library)
        print("INCONCLUSIVE property=%s harness exception while replaying: %r" % (pid, e))
        return 2
    known = findings.load()
    bad = 0
    for vv in ctx.violations:
        f = findings.match(vv, known)
        if f:
            print("KNOWN-FINDING: property=%s %s" % (pid, f["what"]))
        else:
            bad += 1
            print("VIOLATION property=%s replay=%s clause=%s observed=%s expected=%s" % (
                pid, path, vv["clause"], json.dumps(vv["observed"])[:300], json.dumps(vv["expected"])[:300]))
    if ctx.inconclusive and not bad:
        print("INCONCLUSIVE property=%s %s" % (pid, ctx.inconclusive[0][:300]))
        return 2
    if not bad:
        print("replay: no violation reproduced for %s (%s)" % (pid, path))
    return 1 if bad else 0


def main(argv):
    if len(argv) < 2:
        print(__doc__)
        return 3
    pid = argv[0].upper()
    if "--replay" in argv:
        return do_replay(pid, argv[argv.index("--replay") + 1])
    tier = argv[1]
    if tier not in ("quick", "thorough"):
        print(__doc__)
        return 3
    seed = int(os.environ.get("VERIF_SEED", "0"))
    if "--shard" in argv:
        i, n = argv[argv.index("--shard") + 1].split("/")
        out = argv[argv.index("--out") + 1]
        return run_shard(pid, tier, seed, int(i), int(n), out)

    t0 = time.time()
    mod = load_prop(pid)
    nshards = int(mod.shards(tier))
    budget = float(getattr(mod, "WATCHDOG_S", {}).get(tier, 900 if tier == "quick" else 7200))
    tmp = tempfile.mkdtemp(prefix="verif-%s-" % pid, dir=os.environ.get("VERIF_TMP", "/var/tmp"))
    procs_max = min(nshards, int(os.environ.get("VERIF_JOBS", "16")))
    env = dict(os.environ)
    env["PYTHONHASHSEED"] = "0"
    env["PYTHONDONTWRITEBYTECODE"] = "1"
    parts, problems = [], []

    def one(i):
        out = os.path.join(tmp, "%d.partial.json" % i)
        cmd = [sys.executable, "-u", "-m", "vlib.cli", pid, tier, "--shard", "%d/%d" % (i, nshards), "--out", out]
        try:
            r = subprocess.run(cmd, cwd=core.VERIF_DIR, env=env, timeout=budget, capture_output=True, text=True)
        except subprocess.TimeoutExpired:
            return i, None, "watchdog (%ds) fired for shard %d" % (budget, i)
        if r.returncode != 0 or not os.path.exists(out):
            return i, None, "shard %d exited %s: %s" % (i, r.returncode, (r.stderr or "")[-1500:])
        with open(out) as f:
            return i, json.load(f), (r.stderr or "")[-400:] if "Traceback" in (r.stderr or "") else None

    try:
        with concurrent.futures.ThreadPoolExecutor(procs_max) as ex:
            for i, p, err in ex.map(one, range(nshards)):
                if p is None:
                    problems.append(err)
                else:
                    parts.append(p)
    finally:
        shutil.rmtree(tmp, ignore_errors=True)

    m = core.merge_partials(parts)
    for pr in problems:
        m["inconclusive"].append(pr)

    # deciding monitors must have been evaluated
    meta = mod.META
    for name in meta.get("deciding", []):
        if m["monitors"].get(name, {}).get("evals", 0) == 0:
            m["inconclusive"].append("deciding monitor %s had 0 evaluations" % name)
    if hasattr(mod, "finalize"):
        mod.finalize(m)

    known = findings.load()
    unknown, known_hits = [], {}
    for v in m["violations"]:
        f = findings.match(v, known)
        if f:
            known_hits.setdefault(f["id"], [f, 0])[1] += 1
        else:
            unknown.append(v)

    distinct_nt = len(m["nontrivial"]) + sum(m["nontrivial_bulk"].values())
    cov = {
        "evaluations": int(m["evaluations"]),
        "distinct_nontrivial": int(distinct_nt),
        "rule": meta["rule"] + ((" " + meta["added"]) if meta.get("added") else ""),
        "samples": m["samples"],
        "monitors": m["monitors"],
        "shards": nshards,
        "shard_wall_s": m["shard_wall_s"],
        "known_findings": {k: {"count": c, "what": f["what"]} for k, (f, c) in known_hits.items()},
        "inconclusive": m["inconclusive"],
    }
    if meta.get("exhaustive_tiers", {}).get(tier):
        cov["exhaustive"] = True
        cov["exhaustive_subspaces"] = meta["exhaustive_tiers"][tier]
    cov.update(m["extra"])
    ev = {
        "property_id": pid, "tier": tier, "seed": seed, "level": meta.get("level", "exploration"),
        "coverage": cov,
        "assumptions": meta.get("assumptions", []),
        "wall_s": round(time.time() - t0, 2),
        "violations": len(unknown),
    }
    os.makedirs(os.path.join(core.VERIF_DIR, "evidence"), exist_ok=True)
    evp = os.path.join(core.VERIF_DIR, "evidence", "%s.json" % pid)
    if core.REPO != "/repo":
        # a run against a scratch copy (mutant / seeded change) must not overwrite the evidence of the real tree
        evp = os.path.join(os.environ.get("VERIF_TMP", "/var/tmp"), "verif-scratch-evidence-%s.json" % pid)
    with open(evp + ".tmp", "w") as f:
        json.dump(ev, f, indent=1, sort_keys=True, default=repr)
    os.replace(evp + ".tmp", evp)

    for k, (f, c) in known_hits.items():
        print("KNOWN-FINDING: property=%s %s [%s, %d occurrences this run]" % (pid, f["what"], k, c))
    if unknown:
        rdir = os.path.join(core.VERIF_DIR, "replays", pid)
        os.makedirs(rdir, exist_ok=True)
        seen = {}
        for v in unknown:
            key = v["clause"] + "|" + json.dumps(v["tags"], sort_keys=True)
            seen.setdefault(key, []).append(v)
        shown = 0
        for key, vs in seen.items():
            for v in vs[:3]:
                path = os.path.join("replays", pid, core.digest(v) + ".json")
                with open(os.path.join(core.VERIF_DIR, path), "w") as f:
                    json.dump(v, f, indent=1, default=repr)
                if shown < int(os.environ.get('VERIF_SHOW', '40')):
                    print("VIOLATION property=%s replay=%s clause=%s tags=%s observed=%s expected=%s" % (
                        pid, path, v["clause"], json.dumps(v["tags"], sort_keys=True)[:200],
                        json.dumps(v["observed"], default=repr)[:240], json.dumps(v["expected"], default=repr)[:240]))
                    shown += 1
        byclause = {}
        for v in unknown:
            byclause[v["clause"]] = byclause.get(v["clause"], 0) + 1
        for c, n in sorted(byclause.items(), key=lambda kv: -kv[1]):
            print("  class: %5d x %s" % (n, c))
        print("%s %s: %d violation(s) in %d class(es) (total events %d); evaluations=%d distinct_nontrivial=%d wall=%.1fs" % (
            pid, tier, len(unknown), len(seen), m["n_violations"], cov["evaluations"], distinct_nt, ev["wall_s"]))
        return 1
    if m["inconclusive"]:
        for r in m["inconclusive"][:5]:
            print("INCONCLUSIVE property=%s %s" % (pid, r[:600]))
        return 2
    if cov["evaluations"] < 1 or distinct_nt < 2:
        print("INCONCLUSIVE property=%s observed too little (evaluations=%d distinct_nontrivial=%d)" % (
            pid, cov["evaluations"], distinct_nt))
        return 2
    mons = ", ".join("%s=%d" % (k, v["evals"]) for k, v in sorted(m["monitors"].items())[:8])
    print("%s %s: held on what was observed: evaluations=%d distinct_nontrivial=%d monitors[%s] wall=%.1fs" % (
        pid, tier, cov["evaluations"], distinct_nt, mons, ev["wall_s"]))
    return 0


if __name__ == "__main__":
    sys.exit(main(sys.argv[1:]))
