"""Generated (gridded forecast, observed catalog) cases shared by C05 / C06 / C16 / C08 / C18 / C20.

A case is JSON-able:
  {nx, ny, dh, ax, ay, mag0, dmag, nmag, rates[[..]] (cells x mags), ev_cell[], ev_mag[], frac[[fx,fy]..], magoff[]}
Events are placed strictly inside their cell / magnitude bin (no tolerance-band ambiguity), so the
reference gridding w[i,k] is known by construction.
"""
import math

import numpy
import scipy.special as sp

from . import fixtures


def gen_case(rng, max_cells=40, max_mag=8, max_events=120, zero_frac=None, rate_lo=-12, rate_hi=3, events_in_zero=None):
    nx = int(rng.integers(1, 9))
    ny = int(rng.integers(1, max(2, max_cells // nx + 1)))
    nmag = int(rng.integers(1, max_mag + 1))
    ncell = nx * ny
    kind = int(rng.integers(0, 4))
    if kind == 0:
        lr = rng.uniform(rate_lo, rate_hi, (ncell, nmag))
    elif kind == 1:
        lr = rng.uniform(-3, 0.5, (ncell, nmag))
    elif kind == 2:
        lr = rng.normal(-2, 1.5, (ncell, 1)) - 1.0 * numpy.arange(nmag)[None, :] * rng.uniform(0.5, 1.2)
    else:
        lr = rng.uniform(-1, 1, (ncell, nmag))
    rates = 10.0 ** lr
    zf = zero_frac if zero_frac is not None else float(rng.choice([0.0, 0.0, 0.1, 0.3]))
    if zf > 0:
        z = rng.uniform(size=rates.shape) < zf
        mode = int(rng.integers(0, 4))
        if mode == 1:
            z[: max(1, ncell // 5), :] = True        # leading zero run
        elif mode == 2:
            z[-max(1, ncell // 5):, :] = True       # trailing zero run
        if z.all():
            z[rng.integers(0, ncell), rng.integers(0, nmag)] = False
        rates = numpy.where(z, 0.0, rates)
    tot = rates.sum()
    nk = int(rng.integers(0, 5))
    n_ev = [0, 1, int(rng.integers(2, 8)), int(min(max_events, max(1, round(tot)))), int(rng.integers(2, max_events + 1))][nk]
    # events: mostly following the forecast, with several per bin
    p = rates.ravel() / tot
    if rng.uniform() < 0.5 or not numpy.isfinite(p).all():
        flat = rng.integers(0, ncell * nmag, n_ev)
    else:
        flat = rng.choice(ncell * nmag, n_ev, p=p)
    if n_ev >= 2 and rng.uniform() < 0.5:
        flat[1] = flat[0]                                # guaranteed repeated bin
    in_zero = events_in_zero if events_in_zero is not None else (rng.uniform() < 0.15)
    pos = rates.ravel()[flat] > 0
    zeros = numpy.nonzero(rates.ravel() == 0)[0]
    if in_zero and zeros.size and n_ev:
        flat[int(rng.integers(0, n_ev))] = int(rng.choice(zeros))
    elif not in_zero and zeros.size and n_ev:
        good = numpy.nonzero(rates.ravel() > 0)[0]
        flat = numpy.where(pos, flat, rng.choice(good, n_ev))
    ev_cell, ev_mag = numpy.divmod(flat, nmag)
    magoff = rng.uniform(0.1, 0.9, n_ev)
    top = (ev_mag == nmag - 1) & (rng.uniform(size=n_ev) < 0.5)
    magoff = numpy.where(top, rng.uniform(1.5, 25.0, n_ev), magoff)      # the last bin is open-ended: magnitudes far above the last edge
    on_edge = (~top) & (numpy.arange(n_ev) % 7 == 3)
    magoff = numpy.where(on_edge, 0.0, magoff)                           # exactly ON the bin's lower edge (it belongs to that bin), incl. the minimum magnitude
    below_next = (~top) & (numpy.arange(n_ev) % 7 == 5)
    magoff = numpy.where(below_next, 1.0 - 2e-7, magoff)                 # 1e-8..1e-7 magnitude units below the NEXT edge: far outside the float round-off
    #                                                                      tolerance (~1e-15), so still this bin
    case = {
        "nx": nx, "ny": ny, "dh": str(rng.choice(["0.1", "0.5", "0.25", "1", "0.05"])),
        "ax": str(rng.choice(["-125.4", "10", "0", "165.7", "-0.5", "4.35", "-163.7"])), "ay": str(rng.choice(["31.5", "-47.9", "0", "-0.5", "40", "40.05", "8.45"])),
        "mag0": str(rng.choice(["4.95", "5.0", "2.5", "5.95", "4.975"])), "dmag": str(rng.choice(["0.1", "0.2", "0.5", "0.05"])), "nmag": nmag,
        "rates": rates.tolist(), "ev_cell": ev_cell.tolist(), "ev_mag": ev_mag.tolist(),
        "frac": rng.uniform(0.15, 0.85, (n_ev, 2)).tolist(), "magoff": magoff.tolist(),
    }
    # object histories / storage layouts that leave the mathematical input unchanged (drawn last: earlier draws keep their values)
    hk = float(rng.uniform())
    case["history"] = None if hk < 0.6 else ("regridded" if hk < 0.7 else ("inplace-reordered" if hk < 0.8 else ("f4-magnitudes" if hk < 0.87 else (
        "scaled-rates-read" if hk < 0.93 else "rescaled-marginals-read-restored"))))
    lk = float(rng.uniform())
    case["layout"] = None if lk < 0.8 else ("F" if lk < 0.9 else "T")
    # cells flagged 0 in the region's mask (the csep1 flag column): they keep their row in the rate table but are not part of the region; only
    # cells without events are flagged, so the mathematical input is unchanged
    mk = float(rng.uniform())
    free = sorted(set(range(ncell)) - set(int(c) for c in ev_cell))
    case["mask"] = None
    if mk < 0.12 and free and ncell >= 2:
        masked = set(int(c) for c in rng.choice(free, min(len(free), int(rng.integers(1, 3))), replace=False))
        case["mask"] = [0 if c in masked else 1 for c in range(ncell)]
    return case


def build(case, name="fore"):
    """-> (forecast, catalog, region, w) ; w = reference gridded counts (cells x mags)."""
    mags = fixtures.mag_bins(case["mag0"], case["dmag"], case["nmag"])
    if case.get("mag_dtype") == "int":
        mags = mags.astype(numpy.int64)          # integer-typed bin edges (mag0 / dmag are integers in such a case)
    elif case.get("mag_dtype") == "f4":
        mags = mags.astype(numpy.float32)
    mask = case.get("mask")
    if mask is not None:
        # a check may have re-drawn the events after gen_case: a cell that holds an event is never flagged
        occupied = set(int(c) for c in case["ev_cell"])
        mask = [1 if c in occupied else int(m) for c, m in enumerate(mask)]
    reg = fixtures.region(case["nx"], case["ny"], case["dh"], case["ax"], case["ay"], magnitudes=mags, mask=mask)
    reg._verif_mask = mask
    rates = numpy.array(case["rates"], dtype=float)
    fore = fixtures.gridded_forecast(rates, reg, mags, name=name)
    ec = numpy.asarray(case["ev_cell"], dtype=int)
    em = numpy.asarray(case["ev_mag"], dtype=int)
    n = ec.size
    frac = numpy.asarray(case["frac"], dtype=float).reshape(n, 2)
    lons, lats = fixtures.events_in_cells(reg, ec, None, frac=frac) if n else (numpy.zeros(0), numpy.zeros(0))
    dm = float(case["dmag"])
    mo = numpy.asarray(case["magoff"], dtype=float)
    if case.get("history") == "f4-magnitudes":
        mo = numpy.where((mo > 0.99) & (mo < 1.0), 0.5, mo)      # in single precision "1e-8 below the next edge" IS the edge: keep those events mid-bin
    mvals = mags[em] + mo * dm if n else numpy.zeros(0)
    order = case.get("event_order")
    if order is not None:
        order = numpy.asarray(order, dtype=int)
        lons, lats, mvals = lons[order], lats[order], mvals[order]
    cat = fixtures.catalog(lons, lats, mvals, region=reg, name="obs")
    w = numpy.zeros(rates.shape)
    numpy.add.at(w, (ec, em), 1)
    hist = case.get("history")
    if hist == "f4-magnitudes" and n:
        # the catalog's magnitude column is single precision (some readers deliver that): an on-edge magnitude is the float32 nearest to the edge,
        # inside the float32 round-off tolerance of the binning, so it still belongs to the bin that edge opens
        from csep.core.catalogs import CSEPCatalog
        a = cat.catalog
        dt = [(nm, (a.dtype[nm] if nm != "magnitude" else numpy.dtype("<f4"))) for nm in a.dtype.names]
        cat = CSEPCatalog(data=a.astype(dt), region=reg, name="obs")
    if hist == "regridded" and reg.num_nodes > 1 and n:
        # the same catalog object was gridded on another region (same cells, listed in reverse) before being bound to the forecast's region
        from csep.core.regions import CartesianGrid2D
        other = CartesianGrid2D.from_origins(reg.origins()[::-1].copy(), dh=reg.dh, magnitudes=mags)
        cat.region = other
        _quiet(cat.spatial_counts)
        _quiet(cat.spatial_magnitude_counts)
        cat.region = reg
    elif hist == "inplace-reordered" and n >= 2:
        # the catalog was gridded once, then its stored event array was re-ordered in place
        _quiet(cat.spatial_counts)
        _quiet(cat.spatial_magnitude_counts)
        cat.catalog[:] = cat.catalog[::-1].copy()
    lay = case.get("layout")
    if lay == "F":
        fore._data = numpy.asfortranarray(fore._data)
    elif lay == "T":
        fore._data = numpy.ascontiguousarray(fore._data.T).T
    if hist == "scaled-rates-read" and n:
        # history: the per-day rates at the events were read from this forecast object (what a T-test with scale=True does) before the test
        _quiet(lambda: fore.target_event_rates(cat, scale=True))
    if hist == "rescaled-marginals-read-restored":
        # history: the forecast was scaled, its marginals and total were read, and the scale was set back to 1 ("use a value of 1 to recover
        # the original value of the forecast")
        fore.scale(0.5)
        _quiet(fore.spatial_counts)
        _quiet(fore.magnitude_counts)
        _quiet(lambda: fore.event_count)
        _quiet(fore.sum)
        fore.scale(1)
        # ... and the caller normalised the marginals it got, in place (they are the caller's arrays)
        for fn in (fore.spatial_counts, fore.magnitude_counts):
            a = _quiet(fn)
            try:
                a /= 2.0 * a.sum()
            except Exception:  # noqa
                pass
    return fore, cat, reg, w


def _quiet(fn):
    try:
        return fn()
    except Exception:  # noqa  (a raising gridding call is reported by the check that owns it)
        return None


# ---------------------------------------------------------------------------------------------
# oracles (independent formulas)


def poisson_ll(lam, w):
    """sum over all bins of log PoissonPMF(w|lam) with logpmf(0|0)=0, logpmf(w>0|0)=-inf. Returns (value, sum|terms|)."""
    lam = numpy.asarray(lam, dtype=float).ravel()
    w = numpy.asarray(w, dtype=float).ravel()
    if numpy.any((lam == 0) & (w > 0)):
        return -math.inf, math.inf
    terms = []
    for l, k in zip(lam.tolist(), w.tolist()):
        if l == 0.0:
            continue
        terms.append(k * math.log(l) - l - math.lgamma(k + 1.0))
    return math.fsum(terms), math.fsum(abs(t) for t in terms) + math.fsum(lam.tolist())


def poisson_ll_scipy(lam, w):
    import scipy.stats
    lam = numpy.asarray(lam, dtype=float).ravel()
    w = numpy.asarray(w, dtype=float).ravel()
    with numpy.errstate(all="ignore"):
        t = scipy.stats.poisson.logpmf(w, lam)
    t = numpy.where((lam == 0) & (w == 0), 0.0, t)
    return float(numpy.sum(t))


def binary_ll(lam, w):
    """sum_{w>0} ln(1-exp(-lam)) + sum_{w=0} (-lam). Returns (value, scale, cond) ; cond = conditioning slack of the impl formula."""
    lam = numpy.asarray(lam, dtype=float).ravel()
    w = numpy.asarray(w, dtype=float).ravel()
    act = w > 0
    if numpy.any(act & (lam == 0)):
        return -math.inf, math.inf, 0.0
    t1 = [math.log(-math.expm1(-l)) for l in lam[act].tolist()]
    t2 = [-l for l in lam[~act].tolist()]
    val = math.fsum(t1 + t2)
    scale = math.fsum(abs(t) for t in t1 + t2)
    lam_act = lam[act]
    cond = float(numpy.sum(2 * 2.3e-16 / numpy.maximum(lam_act, 1e-300))) if lam_act.size else 0.0
    return val, scale, cond


def brier(lam, w):
    lam = numpy.asarray(lam, dtype=float)
    w = numpy.asarray(w, dtype=float)
    n = lam.size
    t = [(-math.expm1(-l) - (1.0 if k > 0 else 0.0)) ** 2 for l, k in zip(lam.ravel().tolist(), w.ravel().tolist())]
    return -2.0 * math.fsum(t) / n


def scale_factor(scale, shape, seed):
    """A forecast scale factor: a number, or (given as "percell" / "permag" / "full") an array of that layout - scale() is documented for
    "int, float, or ndarray"."""
    if isinstance(scale, str):
        shp = {"percell": (shape[0], 1), "permag": (shape[1],), "full": tuple(shape)}[scale]
        return numpy.random.default_rng([int(seed), 55]).uniform(0.2, 3.0, shp)
    return scale
