"""C16 - binary (Bernoulli) joint log-likelihood and Brier score equal their definitions."""
import math

import numpy

from .. import gridcases, monitor, simlog
from ..core import digest, close

META = {
    "title": "Binary likelihood and Brier scores equal their definitions",
    "level": "exploration",
    "rule": ("primitive cases: rate arrays 1-D and 2-D (unequal dims), 1..3000 bins, rates log-uniform 1e-9..10, 0-20% exact zeros, count "
             "arrays with 0/1/several events per bin, all-zero, all-active, zero-rate active bins as their own class; each also with "
             "counts replaced by min(w,1) and w*k (activity-only dependence). End-to-end: binary_spatial_test, "
             "binary_conditional_likelihood_test, brier_score_test on generated forecasts/catalogs with the simulator log aligning "
             "test_distribution[j] with simulated catalog j. Non-trivial: some bin has w>=2, or a zero-rate bin exists, or a 2-D shape with "
             "unequal dims; distinct = digest(rates, counts, function)."),
    "assumptions": ["reference by math.expm1/log/fsum", "tolerance 1e-9*(1+sum|terms|) + #active*2eps/lambda (conditioning of 1-exp(-lambda))"],
    "deciding": ["binomial_evaluations.binary_joint_log_likelihood_ndarray", "brier_evaluations._brier_score_ndarray",
                 "trace:binary test_distribution[j]~simulated[j]", "trace:brier test_distribution[j]~simulated[j]"],
}
META["added"] = 'Added: Fortran / transposed arrays for primitives and tests, injected Brier collisions (two numbers in one bin), forecasts re-scaled before the tests, many low-rate active bins (product underflow), shared object histories from gridcases. array-valued scale factors. below-minimum-magnitude event alone in a cell (S-test). integer-dtype rate arrays; per-day rates read before the test.'
MANIFEST = {
    "technique": "runtime post-conditions on the real binary-likelihood / Brier primitives (every call, including those made for simulated catalogs) vs expm1-based oracle; simulator boundary log + offline alignment of test distributions; metamorphic activity-only check",
    "level_text": "Every call of the two score primitives - direct, from the three public tests, and for each simulated catalog - is compared with the definition computed by an independent cancellation-free formula; test distributions are aligned with the recorded simulated catalogs; dependence on activity only is checked by re-scoring min(w,1) and k*w.",
    "level_note": "Trusted: math.expm1/log/fsum. Tolerance widened only by the conditioning of the implementation's own 1-exp(-lambda) form (written in evidence).",
}
WATCHDOG_S = {"quick": 900, "thorough": 5400}


def shards(tier):
    return 4 if tier == "quick" else 16


def _mods():
    import csep.core.binomial_evaluations as be
    import csep.core.brier_evaluations as br
    return be, br


def _plain(a):
    if isinstance(a, numpy.ma.MaskedArray):
        return numpy.asarray(a.data, dtype=float)
    return numpy.asarray(a, dtype=float)


def _domain(lam, w):
    lam, w = _plain(lam), _plain(w)
    return lam.size > 0 and lam.size == w.size and numpy.all(numpy.isfinite(lam)) and numpy.all(lam >= 0) and numpy.all(w >= 0)


def install(ctx):
    be, br = _mods()

    def post_b(ctx, args, kwargs, result, exc, caller):
        a = dict(zip(("forecast", "catalog"), args))
        a.update(kwargs)
        lam, w = a["forecast"], a["catalog"]
        if not _domain(lam, w):
            ctx.add("binary_prim_out_of_domain")
            return
        lam, w = _plain(lam), _plain(w)
        case = {"exec": "prim", "args": {"fn": "binary", "lam": lam, "w": w}}
        ref, scale, cond = gridcases.binary_ll(lam, w)
        zero_active = bool(numpy.any((lam.ravel() == 0) & (w.ravel() > 0)))
        tags = {"fn": "binary", "zero_rate_active_bin": zero_active, "has_zero_rate": bool(numpy.any(lam == 0)), "caller": caller,
                "ndim": int(lam.ndim)}
        if exc is not None:
            ctx.violate("binary log-likelihood raised", case, observed=repr(exc), tags=tags)
            return
        got = float(result)
        if zero_active:
            if got != -math.inf:
                ctx.violate("binary log-likelihood finite with an active zero-rate bin (definition: ln(1-exp(0)) = -inf)", case,
                            observed=got, expected=-math.inf, tags=tags)
        elif not (math.isfinite(got) and abs(got - ref) <= 1e-9 * (1.0 + scale) + cond):
            ctx.violate("binary log-likelihood != definition", case, observed=got, expected=ref, tags=tags)
    monitor.wrap(ctx, be, "binary_joint_log_likelihood_ndarray", post_b, mon_name="binomial_evaluations.binary_joint_log_likelihood_ndarray")

    def post_r(ctx, args, kwargs, result, exc, caller):
        a = dict(zip(("forecast", "observations"), args))
        a.update(kwargs)
        lam, w = a["forecast"], a["observations"]
        if not _domain(lam, w):
            ctx.add("brier_prim_out_of_domain")
            return
        lam, w = _plain(lam), _plain(w)
        case = {"exec": "prim", "args": {"fn": "brier", "lam": lam, "w": w}}
        tags = {"fn": "brier", "has_zero_rate": bool(numpy.any(lam == 0)), "ndim": int(w.ndim), "caller": caller,
                "zero_rate_active_bin": bool(numpy.any((lam.ravel() == 0) & (w.ravel() > 0)))}
        if exc is not None:
            ctx.violate("brier score raised", case, observed=repr(exc), tags=tags)
            return
        ref = gridcases.brier(lam, w)
        if not close(float(result), ref, rel=1e-9, abs_=1e-12):
            ctx.violate("brier score != definition", case, observed=float(result), expected=ref, tags=tags)
    monitor.wrap(ctx, br, "_brier_score_ndarray", post_r, mon_name="brier_evaluations._brier_score_ndarray")


def ex_prim(ctx, fn, lam, w, meta=True, layout="C"):
    be, br = _mods()
    lam = numpy.asarray(lam) if layout == "int" else numpy.asarray(lam, dtype=float)      # "int": a rate table of integer dtype (whole-number rates)
    w = numpy.asarray(w, dtype=float)
    if lam.ndim == 2:
        if layout == "F":
            lam = numpy.asfortranarray(lam)                 # rates column-major, counts row-major (as the tests build them)
        elif layout == "T":
            lam = numpy.ascontiguousarray(lam.T).T          # a magnitude-major table transposed
        elif layout == "both-F":
            lam, w = numpy.asfortranarray(lam), numpy.asfortranarray(w)
    f = be.binary_joint_log_likelihood_ndarray if fn == "binary" else br._brier_score_ndarray
    ok, base, tb = ctx.call(f, lam, w)
    if not meta or not ok:
        return
    # activity-only dependence
    for w2, lab in ((numpy.minimum(w, 1), "min(w,1)"), (w * 3, "3w")):
        ok2, v, tb = ctx.call(f, lam, w2)
        ctx.mon("metamorphic:activity-only", 1)
        if not ok2:
            ctx.violate("score changes with event counts although the active set is the same",
                        {"exec": "prim", "args": {"fn": fn, "lam": lam, "w": w}}, observed={"base": float(base), lab: repr(v)}, tags={"fn": fn, "meta": lab, "raised": True})
        elif not (float(v) == float(base) or (math.isnan(float(v)) and math.isnan(float(base)))):
            ctx.violate("score changes with event counts although the active set is the same",
                        {"exec": "prim", "args": {"fn": fn, "lam": lam, "w": w}}, observed={"base": float(base), lab: float(v)}, tags={"fn": fn, "meta": lab})


def ex_e2e(ctx, case, test="BS", num_sim=4, seed=1, layout="C", inject=False, scale=None):
    be, br = _mods()
    fore, cat, reg, w = gridcases.build(case)
    rates = numpy.array(case["rates"], dtype=float)
    if layout == "F":
        fore._data = numpy.asfortranarray(fore._data)
    elif layout == "T":
        fore._data = numpy.ascontiguousarray(fore._data.T).T
    scale_tag = scale
    scale = gridcases.scale_factor(scale, rates.shape, seed)
    if scale is not None:
        # history: the forecast was re-scaled (scale / scale_to_test_date) before the test; the rates in force are data = _data * _scale
        fore.scale(scale)
        rates = rates * scale
    rc = {"exec": "e2e", "args": {"case": case, "test": test, "num_sim": num_sim, "seed": seed, "layout": layout, "inject": inject, "scale": scale_tag}}
    ctx.current_case = rc
    if test == "BS":
        fn, mod, lam, wobs = be.binary_spatial_test, be, rates.sum(axis=1), w.sum(axis=1)
        unflagged = numpy.ones(lam.shape, dtype=bool) if getattr(reg, "_verif_mask", None) is None else numpy.asarray(reg._verif_mask) == 1
        empty_cells = numpy.nonzero((wobs == 0) & (lam > 0) & unflagged)[0]
        if seed % 3 == 1 and empty_cells.size:
            # the spatial test grids the catalog in space only: an event BELOW the forecast's lowest magnitude edge, alone in its cell, still
            # makes that cell active
            from csep.core.catalogs import CSEPCatalog
            c_ = int(empty_cells[seed % empty_cells.size])
            org = reg.origins()[c_]
            rows = [(r_[0].decode() if isinstance(r_[0], bytes) else r_[0],) + tuple(r_[1:]) for r_ in cat.catalog.tolist()]
            rows.append(("below-min", 1262304999000, float(org[1] + 0.5 * reg.dh), float(org[0] + 0.5 * reg.dh), 5.0, float(fore.magnitudes[0]) - 0.3))
            cat = CSEPCatalog(data=rows, region=reg, name="obs")
            wobs = wobs.copy()
            wobs[c_] += 1
    elif test == "BCL":
        fn, mod, lam, wobs = be.binary_conditional_likelihood_test, be, rates, w
    else:
        fn, mod, lam, wobs = br.brier_score_test, br, rates, w
    if seed % 7 == 3 and cat.event_count and cat.event_count == int(w.sum()):
        # a swarm: the bin (for the spatial test: the cell) of the first event holds exactly 256 (512) events - a count that a narrow
        # integer type turns into 0; the scores depend on the bin being active, not on the count
        from csep.core.catalogs import CSEPCatalog
        rows = [(r_[0].decode() if isinstance(r_[0], bytes) else r_[0],) + tuple(r_[1:]) for r_ in cat.catalog.tolist()]
        ec, em = numpy.asarray(case["ev_cell"], dtype=int), numpy.asarray(case["ev_mag"], dtype=int)
        order = case.get("event_order")
        if order is None and case.get("history") is None and len(rows) == ec.size:      # (plain cases only: rebuilt rows carry the stored values)
            c0, k0 = int(ec[0]), int(em[0])
            target = 256 * (1 + seed % 2)
            have = int(w[c0, :].sum()) if test == "BS" else int(w[c0, k0])
            extra = target - have
            if extra > 0:
                rows += [("swarm%d" % i,) + tuple(rows[0][1:]) for i in range(extra)]
                cat = CSEPCatalog(data=rows, region=reg, name="obs")
                w = w.copy()
                w[c0, k0] += extra
                if test == "BS":
                    wobs = w.sum(axis=1)
                else:
                    wobs = w
                ctx.add("swarm_256_events_in_one_bin")
    tags = {"test": test, "has_zero_rate": bool(numpy.any(lam == 0)), "scaled": scale is not None, "event_below_min_mag": bool(test == "BS" and cat.event_count != int(w.sum())),
            "zero_rate_active_bin": bool(numpy.any((numpy.asarray(lam) == 0) & (numpy.asarray(wobs) > 0)))}
    n_active = int((numpy.asarray(wobs) > 0).sum())
    from .c06 import _feasible_binary
    if n_active > int((numpy.asarray(lam) > 0).sum()) or not _feasible_binary(numpy.asarray(lam, dtype=float).ravel(), n_active):
        ctx.add("skipped_infeasible_rejection_cases")   # rejection sampling would need ~1/p draws: not a statement about scores
        return
    if seed % 3 != 2:
        # history on one forecast object: evaluated under another scale factor first, then set to the factor in force and evaluated again -
        # the scores reported are those of the rates in force now
        s0 = fore._scale
        fore.scale(numpy.asarray(s0) * (0.05 if seed % 2 else 4.0))
        try:
            with simlog.RngLog(budget=400000):
                fn(fore, cat, num_simulations=1, seed=0)
        except Exception:  # noqa  (the first evaluation is history, not the judged call)
            pass
        fore.scale(s0)
        ctx.mon("history:evaluated-rescaled-evaluated", 1)
        tags["evaluated_under_another_scale_before"] = True
    kw = {"num_simulations": num_sim, "seed": seed}
    if inject and n_active >= 2:
        # injected uniform numbers (documented injection point of the Brier AND the binary tests): several numbers may land in one bin, i.e.
        # simulated bins holding >= 2 events - the scores depend on which bins are active, not on how many events they hold
        u = numpy.random.default_rng([seed, 16]).uniform(0, 1, (num_sim, n_active))
        u[:, 1] = u[:, 0]
        kw["random_numbers"] = u
        tags["injected_collisions"] = True
    with simlog.RngLog(budget=400000) as rl, simlog.SimLog(mod, "brier" if test == "BR" else "binary", rl) as sl:
        ok, res, tb = ctx.call(fn, fore, cat, **kw)
    ctx.count(1)
    if not ok:
        if isinstance(res, simlog.DrawBudgetExceeded):
            ctx.add("skipped_budget_exceeded_natural_draws")     # liveness of the rejection loop is C06's business, decided on logical draws
        else:
            ctx.violate("test raised", rc, observed=repr(res), tb=tb, tags=dict(tags, exc=type(res).__name__))
        return
    obs = float(res.observed_statistic)
    if test == "BR":
        ref = gridcases.brier(lam, wobs)
        okv = close(obs, ref, rel=1e-9, abs_=1e-12)
    else:
        ref, scale, cond = gridcases.binary_ll(lam, wobs)
        okv = (obs == ref) if not math.isfinite(ref) else (math.isfinite(obs) and abs(obs - ref) <= 1e-9 * (1 + scale) + cond)
    ctx.mon("e2e:observed_statistic", 1)
    if not okv:
        ctx.violate("observed statistic != definition on the gridded catalog", rc, observed=obs, expected=ref, tags=tags)
    td = list(res.test_distribution)
    if len(td) != num_sim or len(sl.calls) != num_sim:
        ctx.violate("test distribution length != number of simulations", rc, observed=[len(td), len(sl.calls)], expected=num_sim, tags=tags)
        return
    shape = numpy.asarray(lam).shape
    for j, (entry, val) in enumerate(zip(sl.calls, td)):
        if "result" not in entry:
            continue
        simw = numpy.asarray(entry["result"])
        if simw.size != int(numpy.prod(shape)):
            # the simulator worked on the positive-rate bins only: read its catalog back onto the full table (zero-rate bins hold no simulated
            # event); any other size cannot be read as a catalog on this forecast's bins
            pos = numpy.asarray(lam, dtype=float).ravel() > 0
            if simw.size != int(pos.sum()):
                ctx.violate("simulated catalog has neither one entry per bin nor one per positive-rate bin", rc, observed=int(simw.size),
                            expected=[int(numpy.prod(shape)), int(pos.sum())], tags=tags)
                break
            full = numpy.zeros(pos.shape, dtype=simw.dtype)
            full[pos] = simw.ravel()
            simw = full
            ctx.add("simulated_catalogs_given_on_positive_rate_bins_only")
        simw = simw.reshape(shape)
        if test == "BR":
            rj = gridcases.brier(lam, simw)
            good = close(float(val), rj, rel=1e-9, abs_=1e-12)
            ctx.mon("trace:brier test_distribution[j]~simulated[j]", 1)
        else:
            rj, sj, cj = gridcases.binary_ll(lam, simw)
            good = (float(val) == rj) if not math.isfinite(rj) else abs(float(val) - rj) <= 1e-9 * (1 + sj) + cj
            ctx.mon("trace:binary test_distribution[j]~simulated[j]", 1)
        if not good:
            ctx.violate("test_distribution[j] != score of simulated catalog j", rc, observed={"j": j, "value": float(val)}, expected=rj,
                        tags=dict(tags, sim_in_zero_rate=bool(numpy.any((numpy.asarray(lam) == 0) & (simw > 0)))))
            break
    if (numpy.asarray(wobs) >= 2).any() or tags["has_zero_rate"] or (numpy.asarray(lam).ndim == 2 and lam.shape[0] != lam.shape[1]):
        ctx.nt(digest((case["rates"], case["ev_cell"], case["ev_mag"], test)))


def ex_maps(ctx, case):
    """Per-cell maps of poisson_evaluations (positive-rate forecasts): sum over cells vs the scaled definition."""
    import csep.core.poisson_evaluations as pe
    fore, cat, reg, w = gridcases.build(case)
    rates = numpy.array(case["rates"], dtype=float)
    ws = w.sum(axis=1)
    n_obs = ws.sum()
    if n_obs == 0 or numpy.any(rates.sum(axis=1) == 0):
        return
    lam = rates.sum(axis=1) * (n_obs / rates.sum())
    rc = {"exec": "maps", "args": {"case": case}}
    ctx.current_case = rc
    ok, bill, tb = ctx.call(pe.binary_spatial_likelihood, fore, cat)
    ctx.mon("maps:binary_spatial_likelihood", 1)
    if ok:
        ref = numpy.array([math.log(-math.expm1(-l)) if k > 0 else -l for l, k in zip(lam, ws)])
        if not numpy.allclose(numpy.asarray(bill, dtype=float), ref, rtol=1e-7, atol=1e-12):
            ctx.violate("binary per-cell map != definition", rc, observed=numpy.asarray(bill)[:6], expected=ref[:6], tags={"fn": "bill"})
    else:
        ctx.violate("binary per-cell map raised", rc, observed=repr(bill), tags={"fn": "bill"})
    ok, poll, tb = ctx.call(pe.poisson_spatial_likelihood, fore, cat)
    ctx.mon("maps:poisson_spatial_likelihood", 1)
    if ok:
        ref = numpy.array([k * math.log(l) - l - math.lgamma(k + 1) for l, k in zip(lam, ws)])
        if not numpy.allclose(numpy.asarray(poll, dtype=float), ref, rtol=1e-9, atol=1e-12):
            ctx.violate("poisson per-cell map != definition", rc, observed=numpy.asarray(poll)[:6], expected=ref[:6], tags={"fn": "poll"})
    else:
        ctx.violate("poisson per-cell map raised", rc, observed=repr(poll), tags={"fn": "poll"})
    ctx.count(2)


EXECUTORS = {"prim": ex_prim, "e2e": ex_e2e, "maps": ex_maps}


def run(ctx):
    install(ctx)
    thorough = ctx.tier == "thorough"
    npz = (2400000 if thorough else 6000) // ctx.nshards
    for j in range(npz):
        r = ctx.rng("c16p", j)
        if j % 3 == 0:
            shape = (int(r.integers(1, 3001 if j % 30 == 0 else 200)),)
        else:
            shape = (int(r.integers(1, 60)), int(r.integers(1, 12)))
        lam = 10 ** r.uniform(-9, 1, shape)
        zf = float(r.choice([0, 0, 0.05, 0.2]))
        if zf:
            lam = numpy.where(r.uniform(size=shape) < zf, 0.0, lam)
        kind = j % 5
        if kind == 0:
            w = numpy.zeros(shape)
        elif kind == 1:
            w = numpy.ones(shape)
        elif kind == 2:
            w = r.poisson(0.3, shape).astype(float)
        else:
            w = r.poisson(numpy.minimum(lam * 3 + 0.05, 5)).astype(float)
        zero_active_class = (j % 7 == 0)
        if not zero_active_class:
            w = numpy.where(lam == 0, 0.0, w)           # zero-rate bins stay inactive in the main class
        lay_ = ["C", "F", "T", "both-F"][j % 4]
        if j % 11 == 5:
            lam = r.integers(0 if zf else 1, 11, shape).astype(numpy.int64)
            w = numpy.where(lam == 0, 0.0, w) if not zero_active_class else w
            lay_ = "int"
        for fn in ("binary", "brier"):
            ex_prim(ctx, fn, lam, w, layout=lay_)
            ctx.count(3)
            if (w >= 2).any() or (lam == 0).any() or (len(shape) == 2 and shape[0] != shape[1]):
                ctx.nt(digest((fn, ctx.seed, ctx.shard, j)))
        if j % 500 == 0:
            ctx.sample({"shape": shape, "rates_first": lam.ravel()[:5], "counts_first": w.ravel()[:8], "zero_rate_bins": int((lam == 0).sum()),
                        "zero_rate_active_class": zero_active_class})
    ne = (80000 if thorough else 240) // ctx.nshards
    for j in range(ne):
        r = ctx.rng("c16e", j)
        case = gridcases.gen_case(r, max_cells=30, max_mag=5, max_events=40, rate_lo=-9, rate_hi=1, events_in_zero=(j % 6 == 0))
        for test in ("BS", "BCL", "BR"):
            ex_e2e(ctx, case, test, num_sim=int(r.choice([1, 3, 5])), seed=int(r.integers(0, 100)), layout=["C", "F", "T"][j % 3], inject=bool(j % 2),
                   scale=None if j % 4 else (float(r.choice([0.25, 0.5, 3.0])) if j % 8 else str(r.choice(["percell", "permag", "full"]))))
        ex_maps(ctx, case)
