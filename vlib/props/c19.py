"""C19 - catalog readers decode every well-formed record of each supported format."""
import csv
import datetime
import math
import os
import tempfile

import numpy

from .. import witness
from ..core import digest, scratch_dir

UTC = datetime.timezone.utc
EPOCH = datetime.datetime(1970, 1, 1, tzinfo=UTC)
META = {
    "title": "Catalog readers decode every well-formed record",
    "level": "exploration",
    "rule": ("per format (csep-csv, zmap, jma-csv, ingv_horus, ndk): files written by a per-format writer model from random event lists of "
             "1..200 records (incl. exactly 1), full coordinate ranges, years 1900..2100, leap days, 23:59:59->00:00:00 roll-overs, seconds "
             "written as 60 / 60.0, HORUS rows with minute 60 / hour 24 / seconds >= 60, JMA offsets +0900/+0000/-0330/+0530/-0030/-0045/+0030/-0100/-0930, NDK tensor components touching the exponent, ZMAP with decimal-year "
             "and integer-year first time column and with/without the optional error columns, csep-csv with/without header and fractional seconds; "
             "loaded through csep.load_catalog(type=...). Non-trivial: file has >= 2 records and a roll-over, a non-UTC offset or a negative "
             "coordinate; distinct = digest(file text)."),
    "assumptions": ["coordinates = float(printed string) (HORUS: rounded to float32, the dtype the reader documents); NDK magnitude = 2/3(log10(M0*10^(exp-7))-9.1)",
                    "time accepted iff decoded == instant at ms resolution (csep-csv, jma) or floor(instant to s) <= decoded <= instant (zmap, ndk, horus)"],
    "deciding": ["decode:csep-csv", "decode:zmap", "decode:jma-csv", "decode:ingv_horus", "decode:ndk"],
}
META["added"] = 'Added: 1-6 fraction digits, files without final newline, decimal-year ZMAP in the second half of the year, pre-1970 fractional CSEP times, the epoch instant and zero-valued coordinates / depths. shards under different process time zones. NDK CENTROID lines with touching fields; the same file path re-used by every case. exponent-notation longitude in the first CSV record, NDK depth types FIX/BDY. coordinates at +-180 / +-90; HORUS coordinates accepted at print or float32 precision.'
MANIFEST = {
    "technique": "boundary recorder on csep.load_catalog per format against per-format writer models; sys.monitoring witness on the readers' roll-over branches (a branch never reached makes the run inconclusive)",
    "level_text": "For each of the five text formats, generated files of well-formed records are decoded by the real readers; event count, order, coordinates, depth, magnitude and origin time (UTC, at the format's resolution) are compared with the writer model; roll-over spellings (seconds 60, minute 60, hour 24) and non-UTC offsets are generated on purpose and the witness confirms the roll-over branches executed.",
    "level_note": "Trusted: writer models of the five formats (built from the repository's sample artifacts and the readers' documented column layouts).",
}
WATCHDOG_S = {"quick": 900, "thorough": 5400}
FORMATS = ("csep-csv", "zmap", "jma-csv", "ingv_horus", "ndk")


def shards(tier):
    return 4 if tier == "quick" else 16


def ms_of(dt):
    return (dt - EPOCH) // datetime.timedelta(milliseconds=1)


def gen_events(r, n, fmt):
    ev = []
    for i in range(n):
        y = int(r.integers(1900, 2101))
        mo = int(r.integers(1, 13))
        d = int(r.integers(1, 29))
        if r.uniform() < 0.08:
            y, mo, d = int(r.choice([1904, 2000, 2020, 1996])), 2, 29
        hh, mm, ss = int(r.integers(0, 24)), int(r.integers(0, 60)), int(r.integers(0, 60))
        kind = int(r.integers(0, 6))
        if kind == 0:
            hh, mm, ss = 23, 59, 59
        elif kind == 1:
            mm, ss = 59, 59
        frac_ms = int(r.choice([0, 0, 100, 250, 999, int(r.integers(0, 1000))]))
        base = datetime.datetime(y, mo, d, hh, mm, ss, tzinfo=UTC) + datetime.timedelta(milliseconds=frac_ms)
        lat = float(numpy.round(r.uniform(-89.9, 89.9), int(r.integers(1, 5))))
        lon = float(numpy.round(r.uniform(-179.9, 179.9), int(r.integers(1, 5))))
        dep = float(numpy.round(r.uniform(0, 650), 1))
        z = r.uniform()
        if z < 0.04:
            base = datetime.datetime(1970, 1, 1, tzinfo=UTC)          # the epoch itself (0 ms): zero-valued fields are legitimate values
        elif z < 0.08:
            lat = 0.0
        elif z < 0.12:
            lon = 0.0
        elif z < 0.16:
            dep = 0.0
        elif z < 0.20:
            lon = float(r.choice([180.0, -180.0]))          # the antimeridian, written either way
        elif z < 0.22:
            lat = float(r.choice([90.0, -90.0]))
        if i == 0 and fmt == "csep-csv" and r.uniform() < 0.3:
            lon = float(r.choice([5e-05, -2.5e-05, 7.5e-06]))          # first record: longitude whose shortest text form uses exponent notation
        ev.append({"t": base, "lat": lat, "lon": lon, "depth": dep, "mag": float(numpy.round(r.uniform(1, 9), 2)),
                   "roll": int(r.integers(0, 5)) == 0})
    return ev


# ---------------------------------------------------------------------------------------------
# writer models: each returns (text or rows written, expected list of (ms_lo, ms_hi, lat, lon, depth, mag))


def write_csep(path, ev, r, header):
    exp = []
    with open(path, "w", newline="") as f:
        w = csv.writer(f)
        if header:
            w.writerow(["lon", "lat", "mag", "time_string", "depth", "catalog_id", "event_id"])
        for i, e in enumerate(ev):
            t = e["t"]
            frac = t.microsecond != 0 or r.uniform() < 0.5
            digits = "%06d" % t.microsecond
            if frac and r.uniform() < 0.5:
                digits = digits.rstrip("0") or "0"            # 1-6 fraction digits: .5, .25, .125 are the same instants as .500000 ...
            ts = t.strftime("%Y-%m-%dT%H:%M:%S") + ("." + digits if frac else "")
            w.writerow([repr(e["lon"]), repr(e["lat"]), repr(e["mag"]), ts, repr(e["depth"]), 7, "id%d" % i])
            m = ms_of(t)
            exp.append((m, m, e["lat"], e["lon"], e["depth"], e["mag"]))
    return exp


def write_jma(path, ev, r):
    exp = []
    with open(path, "w", newline="") as f:
        f.write("timestamp;longitude;latitude;depth;magnitude\n")
        for e in ev:
            # offsets on both sides of UTC, incl. less than an hour from it (-00:30: the hour digits carry no sign) and a whole negative hour
            off = int(r.choice([540, 540, 0, -210, 330, 60, -30, -45, 30, -60, -570]))
            local = e["t"] + datetime.timedelta(minutes=off)
            sign = "+" if off >= 0 else "-"
            ts = local.strftime("%Y-%m-%dT%H:%M:%S") + ".%06d" % local.microsecond + "%s%02d%02d" % (sign, abs(off) // 60, abs(off) % 60)
            f.write("%s;%r;%r;%r;%r\n" % (ts, e["lon"], e["lat"], e["depth"], e["mag"]))
            m = ms_of(e["t"])
            exp.append((m, m, e["lat"], e["lon"], e["depth"], e["mag"]))
            e["offset"] = off
    return exp


def write_zmap(path, ev, r, decimal_year, errors):
    exp = []
    with open(path, "w") as f:
        for e in ev:
            t = e["t"]
            y0 = datetime.datetime(t.year, 1, 1, tzinfo=UTC)
            y1 = datetime.datetime(t.year + 1, 1, 1, tzinfo=UTC)
            ycol = ("%.8f" % (t.year + (t - y0) / (y1 - y0) * 0.999)) if decimal_year else "%d" % t.year
            sec = t.second
            cols = ["%r" % e["lon"], "%r" % e["lat"], ycol, "%d" % t.month, "%d" % t.day, "%r" % e["mag"], "%r" % e["depth"], "%d" % t.hour,
                    "%d" % t.minute, "%d" % sec]
            if errors:
                cols += ["0.5", "1.2", "0.1"]
            f.write("\t".join(cols) + "\n")
            lo = ms_of(t.replace(microsecond=0))
            exp.append((lo, ms_of(t), e["lat"], e["lon"], e["depth"], e["mag"]))
    return exp


def write_horus(path, ev, r):
    exp = []
    with open(path, "w") as f:
        f.write("Year\tMo\tDa\tHo\tMi\tSe\tLat\tLon\tDepth\tMw\tsigMw\tGeo-Ita\tGeo-CPTI15\t\n")
        for e in ev:
            t = e["t"]
            y, mo, d, hh, mm = t.year, t.month, t.day, t.hour, t.minute
            ss = t.second + t.microsecond / 1e6
            if e["roll"]:
                # the same instant written with overflowing fields, as in the published catalog (seconds 64.29, minute 60, hour 24)
                back = t - datetime.timedelta(minutes=1)
                y, mo, d, hh, mm = back.year, back.month, back.day, back.hour, back.minute
                ss = back.second + back.microsecond / 1e6 + 60.0
                mode = int(r.integers(0, 3))
                if mode >= 1 and mm == 59 and False:
                    pass
                if mode == 1:
                    b2 = t - datetime.timedelta(hours=1)
                    y, mo, d, hh, mm, ss = b2.year, b2.month, b2.day, b2.hour, b2.minute + 60, b2.second + b2.microsecond / 1e6
                elif mode == 2:
                    b3 = t - datetime.timedelta(days=1)
                    y, mo, d, hh, mm, ss = b3.year, b3.month, b3.day, b3.hour + 24, b3.minute, b3.second + b3.microsecond / 1e6
            vals = [y, mo, d, hh, mm, ss, e["lat"], e["lon"], e["depth"], e["mag"], 0.2]
            f.write("\t".join("%20.10f" % v for v in vals) + "\t*\t*\t\n")
            f32 = lambda v: float(numpy.float32(v))
            # whole-second reader working on float32 seconds: the second field may round up by one float32 ulp
            lo = ms_of(t.replace(microsecond=0)) - (1000 if (ss % 1.0) < 1e-5 else 0)
            hi = ms_of(t) + (1000 if (1.0 - ss % 1.0) < 1e-5 else 0)
            exp.append((min(lo, ms_of(t.replace(microsecond=0))), hi, f32(e["lat"]), f32(e["lon"]), f32(e["depth"]), f32(e["mag"])))
    return exp


def write_ndk(path, ev, r):
    exp = []
    with open(path, "w") as f:
        for i, e in enumerate(ev):
            t = e["t"]
            tenth = t.microsecond // 100000
            tt = t.replace(microsecond=tenth * 100000)
            if e["roll"]:
                # the whole-minute instant hh:mm:00.0 written as (hh:mm-1):60.0, as found in published NDK files
                tt = t.replace(second=0, microsecond=0)
                back = tt - datetime.timedelta(minutes=1)
                date_s = back.strftime("%Y/%m/%d")
                time_s = "%02d:%02d:60.0" % (back.hour, back.minute)
            else:
                date_s = tt.strftime("%Y/%m/%d")
                time_s = "%02d:%02d:%04.1f" % (tt.hour, tt.minute, tt.second + tenth / 10.0)
            lat = float(numpy.round(e["lat"], 2))
            lon = float(numpy.round(e["lon"], 2))
            dep = float(numpy.round(e["depth"], 1))
            expo = int(r.integers(22, 29))
            m0 = float(numpy.round(r.uniform(1.0, 9.999), 3))
            line1 = "%-4s %10s %10s %6.2f %7.2f %5.1f %3.1f %3.1f %-24s" % ("PDE", date_s, time_s, lat, lon, dep, 5.0, 0.0, "SYNTHETIC REGION")
            line2 = "%-16s B:  4    4  40 S: 27   33  50 M:  0    0   0 CMT: 1 TRIHD:  0.6" % ("C%sA" % tt.strftime("%Y%m%d%H%M"))
            # CENTROID line, fixed columns [10:18] time shift, [18:22] its error, then lat/err, lon/err, depth/err: with a two-digit error
            # (>= 10.0 s) or a three-digit shift the neighbouring fields touch, which is legal in the fixed-width format
            tshift = float(r.choice([-0.3, 12.7, -9.9, 123.4, 0.0]))
            terr = float(r.choice([0.9, 0.0, 10.5, 99.9, 0.1]))
            dtype_ = str(r.choice(["FREE", "FREE", "FIX ", "BDY "]))       # depth type: free inversion, fixed, body-wave constrained
            line3 = "CENTROID: %8.1f%4.1f%7.2f%5.2f%8.2f%5.2f%6.1f%5.1f %s S-20050322125201" % (tshift, terr, 13.76, 0.06, -89.08, 0.09, 162.8, 12.5, dtype_)
            assert line3[59:63] == dtype_, line3
            # moment-tensor line: exponent (I2) immediately followed by Mrr (F7.3) - a component <= -10 or >= 100 (in units of 10**exponent)
            # fills its seven columns and touches the exponent, which is legal in the fixed-width format
            mrr = float(r.choice([0.838, 0.838, -10.500, 123.456, -1.234, -99.999]))
            line4 = "%2d%7.3f 0.201 -0.005 0.231 -0.833 0.270  1.050 0.121 -0.369 0.161  0.044 0.240" % (expo, mrr)
            assert len("%7.3f" % mrr) == 7
            line5 = "V10   1.581 56  12  -0.537 23 140  -1.044 24 241 %7.3f   9 29  142 133 72   66" % m0
            assert line5[49:56].strip() == "%.3f" % m0, line5[49:56]
            f.write("\n".join([line1, line2, line3, line4, line5]) + "\n")
            mw = 2.0 / 3.0 * (math.log10(float("%.3f" % m0) * (10 ** (expo - 7))) - 9.1)
            lo = ms_of(tt.replace(microsecond=0))
            exp.append((lo, ms_of(tt), lat, lon, dep, mw))
    return exp


def ex_file(ctx, fmt, n, seed, variant=0):
    import csep
    r = numpy.random.default_rng([seed, FORMATS.index(fmt), 19])
    ev = gen_events(r, n, fmt)
    tmp = scratch_dir("c19-")
    path = os.path.join(tmp, "cat." + {"csep-csv": "csv", "zmap": "dat", "jma-csv": "csv", "ingv_horus": "txt", "ndk": "ndk"}[fmt])
    rc = {"exec": "file", "args": {"fmt": fmt, "n": n, "seed": seed, "variant": variant}}
    ctx.current_case = rc
    tags = {"format": fmt, "single_record": n == 1, "variant": variant}
    try:
        if fmt == "csep-csv":
            exp = write_csep(path, ev, r, header=bool(variant % 2))
        elif fmt == "jma-csv":
            exp = write_jma(path, ev, r)
        elif fmt == "zmap":
            exp = write_zmap(path, ev, r, decimal_year=bool(variant % 2), errors=bool(variant // 2 % 2))
        elif fmt == "ingv_horus":
            exp = write_horus(path, ev, r)
        else:
            exp = write_ndk(path, ev, r)
        if variant >= 2 and seed % 2:
            with open(path, "rb") as f_:
                raw_ = f_.read()
            if raw_.endswith(b"\n"):
                with open(path, "wb") as f_:
                    f_.write(raw_[:-1])           # no newline after the last record
            tags["no_final_newline"] = True
        ok, cat, tb = ctx.call(csep.load_catalog, path, type=fmt)
        ctx.mon("decode:" + fmt, 1)
        ctx.count(1)
        if not ok:
            ctx.violate("loading a well-formed %s file raised" % fmt, rc, observed=repr(cat), tb=tb, tags=dict(tags, clause="raised", exc=type(cat).__name__))
            return
        rows = cat.catalog.tolist()
        if len(rows) != len(exp):
            ctx.violate("number of decoded events != number of records", rc, observed=len(rows), expected=len(exp), tags=dict(tags, clause="count"))
            return
        for k, (row, e) in enumerate(zip(rows, exp)):
            _, ms, lat, lon, dep, mag = row
            if not (e[0] <= ms <= e[1]):
                ctx.violate("decoded origin time is not the encoded instant in UTC at the format's resolution", rc,
                            observed={"record": k, "ms": ms, "as_utc": str(EPOCH + datetime.timedelta(milliseconds=int(ms)))},
                            expected={"ms_range": [e[0], e[1]], "as_utc": str(EPOCH + datetime.timedelta(milliseconds=int(e[1])))},
                            tags=dict(tags, clause="time", off_seconds=int(round((ms - e[1]) / 1000.0)), roll=bool(ev[k]["roll"]), offset=ev[k].get("offset")))
                return
            tol = 1e-12
            got = (lat, lon, dep, mag)
            want = e[2:]
            # (HORUS: the reader documents single precision - the printed value or its float32 rounding are both the written value)
            alt = want if fmt != "ingv_horus" else (ev[k]["lat"], ev[k]["lon"], ev[k]["depth"], ev[k]["mag"])
            bad = [nm for nm, g, w_, a_ in zip(("latitude", "longitude", "depth", "magnitude"), got, want, alt)
                   if not (abs(g - w_) <= tol * (1 + abs(w_)) or abs(g - a_) <= tol * (1 + abs(a_)))]
            if bad:
                ctx.violate("decoded coordinates / depth / magnitude differ from the record", rc, observed={"record": k, "values": got}, expected={"values": want},
                            tags=dict(tags, clause="fields", fields=bad))
                return
        with open(path, "rb") as f:
            raw = f.read()
            dg = digest(raw)
        if ctx.evaluations % 37 == 0:
            ctx.sample({"format": fmt, "records": n, "file_head": raw.decode("latin-1").splitlines()[:3 if fmt != "ndk" else 5],
                        "decoded_head": [[int(r_[1]), r_[2], r_[3], r_[4], r_[5]] for r_ in rows[:2]], "expected_ms_range_head": [list(e_[:2]) for e_ in exp[:2]]}, cap=8)
        if n >= 2 and (any(e_["roll"] for e_ in ev) or any(e_.get("offset") for e_ in ev) or any(e_["lat"] < 0 or e_["lon"] < 0 for e_ in ev)):
            ctx.nt(dg)
    finally:
        for fn in os.listdir(tmp):
            os.remove(os.path.join(tmp, fn))
        os.rmdir(tmp)


EXECUTORS = {"file": ex_file}


def install(ctx):
    from ..core import set_process_time_zone
    set_process_time_zone(ctx)


def run(ctx):
    install(ctx)
    import csep.utils.readers as readers
    thorough = ctx.tier == "thorough"
    w1 = witness.LineWitness(readers._parse_datetime_to_zmap, {"add_minute = True": "ndk-seconds-60"}, "_parse_datetime_to_zmap", tool=4)
    w2 = witness.LineWitness(readers.ingv_horus, {"dt += datetime.timedelta(minutes=1)": "horus-second>=60", "dt += datetime.timedelta(hours=1)": "horus-minute>=60",
                                                  "dt += datetime.timedelta(days=1)": "horus-hour>=24"}, "ingv_horus", tool=5)
    n = (75000 if thorough else 400)
    ci = 0
    with w1, w2:
        for fmt in FORMATS:
            for j in range(n):
                ci += 1
                if not ctx.mine(ci):
                    continue
                r = ctx.rng("c19", fmt, j)
                nrec = 1 if j % 9 == 0 else int(r.choice([2, 3, 10, 40, 200 if j % 25 == 0 else 20]))
                ex_file(ctx, fmt, nrec, seed=int(r.integers(0, 10 ** 9)), variant=j % 4)
                if j % 40 == 0:
                    ctx.sample({"format": fmt, "records": nrec, "variant": j % 4})
    ctx.extra["witness"] = {"ndk": w1.summary(), "horus": w2.summary()}
    for w in (w1, w2):
        labs = set(w.labels.values())
        hit = {w.labels[x] for x in w.hit if x in w.labels}
        ctx.extra.setdefault("witness_branches_hit", [])
        ctx.extra["witness_branches_hit"] += sorted(hit)
        ctx.extra.setdefault("witness_branches_labelled", [])
        ctx.extra["witness_branches_labelled"] += sorted(labs)


def finalize(m):
    lab = set(m["extra"].get("witness_branches_labelled", []))
    hit = set(m["extra"].get("witness_branches_hit", []))
    for b in sorted(lab - hit):
        m["inconclusive"].append("roll-over branch %s exists in the reader but was never reached by the workload" % b)
