"""sys.monitoring LINE witness restricted to given code objects: which statements of the anchored function
executed, and which (labelled) branch followed which. Evidence of what the monitor observed, not a verdict."""
import inspect
import sys

TOOL = 5


class LineWitness:
    def __init__(self, func, labels=None, name=None, tool=TOOL):
        """labels: {substring of stripped source line: label}; duplicates get #2, #3 suffixes."""
        self.tool = tool
        self.func = getattr(func, "__func__", func)
        self.code = self.func.__code__
        self.name = name or self.func.__qualname__
        self.hit = set()
        self.pairs = set()
        self.seq_len = 0
        self._prev = None
        self.labels = {}
        try:
            src, start = inspect.getsourcelines(self.func)
        except Exception:  # noqa
            src, start = [], self.code.co_firstlineno
        seen = {}
        self.stmt_lines = set()
        for i, text in enumerate(src):
            t = text.strip()
            if t and not t.startswith("#") and not t.startswith('"""'):
                self.stmt_lines.add(start + i)
            for key, lab in (labels or {}).items():
                if key in t:
                    seen[lab] = seen.get(lab, 0) + 1
                    self.labels[start + i] = lab if seen[lab] == 1 else "%s#%d" % (lab, seen[lab])
        self.active = False

    def _cb(self, code, line):
        if code is self.code:
            self.hit.add(line)
            lab = self.labels.get(line)
            if lab is not None:
                self.seq_len += 1
                if self._prev is not None:
                    self.pairs.add((self._prev, lab))
                self._prev = lab

    def reset_sequence(self):
        self._prev = None

    def __enter__(self):
        mon = sys.monitoring
        try:
            mon.use_tool_id(self.tool, "verif-witness-%d" % self.tool)
        except ValueError:
            pass
        mon.register_callback(self.tool, mon.events.LINE, self._cb)
        mon.set_local_events(self.tool, self.code, mon.events.LINE)
        self.active = True
        return self

    def __exit__(self, *a):
        mon = sys.monitoring
        mon.set_local_events(self.tool, self.code, 0)
        mon.register_callback(self.tool, mon.events.LINE, None)
        try:
            mon.free_tool_id(self.tool)
        except Exception:  # noqa
            pass
        self.active = False
        return False

    def summary(self):
        labs = sorted(set(self.labels.values()))
        return {"function": self.name, "lines_hit": len(self.hit), "labelled_branches": labs,
                "branches_hit": sorted({l for l in (self.labels.get(x) for x in self.hit) if l}),
                "branch_pairs_seen": sorted("%s->%s" % p for p in self.pairs), "labelled_events": self.seq_len}
