"""pytest plugin: run the repository's own suite with a property's monitors installed (guard PYCSEP_VERIF=1).

Loaded with `-p vlib.pytest_plugin` by vlib.suite.run_repo_suite in a subprocess. Installs the monitors of the property named in
VERIF_PLUGIN_PROP before test modules are collected (so `from csep... import f` in the tests binds the wrapped functions) and dumps
the ledger (monitor evaluations, violations) to VERIF_PLUGIN_OUT when the session finishes. pytest's own verdicts are ignored.
"""
import importlib
import json
import os

_CTX = [None]


def pytest_configure(config):
    if os.environ.get("PYCSEP_VERIF") != "1":
        return
    from vlib import core
    core.setup_repo_import()
    pid = os.environ["VERIF_PLUGIN_PROP"]
    mod = importlib.import_module("vlib.props.%s" % pid.lower())
    ctx = core.Ctx(pid, "thorough", int(os.environ.get("VERIF_SEED", "0")), 0, 1)
    mod.install(ctx)
    _CTX[0] = ctx


def pytest_sessionfinish(session, exitstatus):
    ctx = _CTX[0]
    if ctx is None:
        return
    with open(os.environ["VERIF_PLUGIN_OUT"], "w") as f:
        json.dump(ctx.partial(), f)
