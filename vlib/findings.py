"""Known-findings matcher.

/verif/known_findings.json is committed and read-only at run time. Every entry names a
*classifier*: a pure predicate over the structure of a violation (clause, tags set by the check
from the failing case's structure, exception type) - never over seeds, hashes or random values.
Open entries turn matching violations into KNOWN-FINDING lines; fixed entries suppress nothing.
"""
import json
import os

from .core import VERIF_DIR

PATH = os.path.join(VERIF_DIR, "known_findings.json")

CLASSIFIERS = {}


def classifier(fn):
    CLASSIFIERS[fn.__name__] = fn
    return fn


def load():
    if not os.path.exists(PATH):
        return []
    with open(PATH) as f:
        return json.load(f)["findings"]


def match(violation, findings):
    """Return the open finding that explains this violation, or None."""
    for f in findings:
        if f.get("status") != "open" or f.get("property") != violation["property"]:
            continue
        fn = CLASSIFIERS.get(f.get("classifier"))
        if fn is None:
            continue
        try:
            if fn(violation):
                return f
        except Exception:  # noqa  - a classifier that cannot decide does not match
            continue
    return None


# --- classifiers (one per *mechanism*) ------------------------------------------------------
# (none open at present: see known_findings.json; classifiers are added next to the finding)
