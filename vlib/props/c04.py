"""C04 - catalog filtering keeps exactly the events that satisfy every statement."""
import datetime
import itertools
import operator
import os
import tempfile

import numpy

from .. import fixtures, monitor
from ..core import digest, scratch_dir
from . import c01, c15

META = {
    "title": "Filtering keeps exactly the events satisfying every statement",
    "level": "exploration",
    "rule": ("(catalog, statement list, application history) triples: catalogs of 0..200 events with attribute values drawn from small pools "
             "so thresholds often EQUAL attribute values; statements over 5 attributes x 5 operators with threshold spellings 5 / 5.0 / 5e0 / "
             "negative, datetime statements at every ms phase incl. pre-1970; histories: single call, all permutations of <=4 statements, "
             "all set partitions into sequential calls, re-application, in_place True/False, filter(S, in_place=False) then filter(S), "
             "constructor filters= then filter(); spatial filter on C01 lattices with holes/flags; load_catalog(apply_filters=True). "
             "Non-trivial: an attribute equals a threshold, or >= 2 statements, or a datetime statement; distinct = digest(case)."),
    "assumptions": ["pure-Python predicate evaluator over exact field values is the reference", "datetime thresholds parsed by an independent integer-arithmetic parser"],
    "deciding": ["post:filter", "post:filter_spatial", "history:order/grouping/idempotence"],
}
META["added"] = 'Added: threshold instants at arbitrary millisecond phases that a seconds*1000 float product does not reproduce. histories that leave filters set on the source, origin_time thresholds between two integer milliseconds, zero-valued attributes and thresholds, catalogs already bound to another region (constructor or earlier filter_spatial) before filter_spatial(region). events on the exclusive outer east / north edge with no event beyond the box. empty statement lists. NaN attributes. copy-then-original filter histories.'
MANIFEST = {
    "technique": "runtime post-conditions with OLD snapshots on the real filter / filter_spatial (sub-sequence, bit-identical rows, source untouched when in_place=False, no shared memory) + pure-Python predicate reference + sequential history checker over permutations, groupings, re-application and mixed in_place histories",
    "level_text": "Every call of filter/filter_spatial in the workload is checked against OLD state (kept rows are a bit-identical sub-sequence; source untouched and unshared with in_place=False); kept ids are compared with a pure-Python predicate evaluator; for each case all permutations and all sequential groupings of up to 4 statements, re-application and in_place variants must give the same catalog; datetime statements must equal the origin-time statement of the same instant.",
    "level_note": "Trusted: Python int/float comparisons, independent datetime parser, C01 lattice model for the spatial filter (points inside round-off bands are not generated).",
}
WATCHDOG_S = {"quick": 900, "thorough": 5400}
OPS = {">": operator.gt, "<": operator.lt, ">=": operator.ge, "<=": operator.le, "==": operator.eq}
ATTRS = ("origin_time", "latitude", "longitude", "depth", "magnitude")


def shards(tier):
    return 4 if tier == "quick" else 16


def rows_of(cat):
    return cat.catalog.tolist()


def canon_rows(rows):
    """Rows with NaN fields made comparable (NaN != NaN would make identical rows look different)."""
    return [tuple("nan" if isinstance(v, float) and v != v else v for v in r) for r in rows]


def install(ctx):
    from ..core import set_process_time_zone
    set_process_time_zone(ctx)
    import csep.core.catalogs as cats

    def pre(ctx, args, kwargs):
        self = args[0]
        return {"bytes": self.catalog.tobytes(), "rows": self.catalog.tolist(), "arr": self.catalog}

    def post(name):
        def f(ctx, args, kwargs, result, exc, caller, snap):
            self = args[0]
            if exc is not None:
                return
            in_place = kwargs.get("in_place", True)
            if name == "filter" and len(args) > 2:
                in_place = args[2]
            if name == "filter_spatial" and len(args) > 3:
                in_place = args[3]
            case = {"exec": "noop", "args": {}}
            res_rows = canon_rows(result.catalog.tolist())
            it = iter(canon_rows(snap["rows"]))
            if not all(any(r == o for o in it) for r in res_rows):
                ctx.violate("%s: kept events are not a bit-identical sub-sequence of the source events" % name, case,
                            observed=res_rows[:3], tags={"api": name, "clause": "subsequence", "in_place": bool(in_place)})
            if in_place:
                if result is not self:
                    ctx.violate("%s(in_place=True) did not return the catalog itself" % name, case, tags={"api": name, "clause": "returns-self"})
            else:
                if result is self:
                    ctx.violate("%s(in_place=False) returned the source catalog object" % name, case, tags={"api": name, "clause": "new-object"})
                if self.catalog.tobytes() != snap["bytes"]:
                    ctx.violate("%s(in_place=False) changed the source catalog's events" % name, case, tags={"api": name, "clause": "source-mutated"})
                elif result is not self and result.catalog.size and numpy.shares_memory(result.catalog, self.catalog):
                    ctx.violate("%s(in_place=False) result shares memory with the source catalog" % name, case, tags={"api": name, "clause": "shares-memory"})
        return f
    monitor.wrap_method(ctx, cats.AbstractBaseCatalog, "filter", post("filter"), mon_name="post:filter", pre=pre)
    monitor.wrap_method(ctx, cats.AbstractBaseCatalog, "filter_spatial", post("filter_spatial"), mon_name="post:filter_spatial", pre=pre)


def parse_statement(st):
    """Reference parser -> (field, op, threshold) with exact threshold (int ms for datetime, float otherwise)."""
    parts = st.split(" ")
    if parts[0] == "datetime":
        us = c15.parse_ref(" ".join(parts[2:]))
        assert us is not None and us % 1000 == 0
        return "origin_time", parts[1], us // 1000
    return parts[0], parts[1], float(parts[2])


def ref_keep(rows, statements):
    idx = {"origin_time": 1, "latitude": 2, "longitude": 3, "depth": 4, "magnitude": 5}
    out = []
    for r in rows:
        ok = True
        for st in statements:
            f, op, thr = parse_statement(st)
            if not OPS[op](r[idx[f]], thr):
                ok = False
                break
        if ok:
            out.append(r)
    return out


def gen_catalog(r, n):
    pool_t = sorted(int(x) for x in r.integers(-2000000000000, 4000000000000, 6))
    pool_t = [t - t % 1000 + int(r.choice([0, 1, 500, 999, 250, 100, 900, 10])) for t in pool_t]
    if r.uniform() < 0.5:
        # an instant at an arbitrary millisecond phase whose value is NOT reproduced by (t / 1000) * 1000 in double precision (about 1 in 80 is
        # not): an integer-millisecond threshold must be compared as that integer
        while True:
            t_ = int(r.integers(-2000000000000, 4000000000000))
            if (t_ / 1000.0) * 1000.0 != float(t_):
                break
        pool_t[int(r.integers(0, 6))] = t_
    if r.uniform() < 0.3:
        pool_t[int(r.integers(0, 6))] = 0          # the epoch instant itself; zero is a legitimate value for every field
    pools = {"lat": numpy.append(numpy.round(r.uniform(-60, 60, 4), 1), 0.0), "lon": numpy.append(numpy.round(r.uniform(-170, 170, 4), 1), 0.0),
             "dep": numpy.array([0.0, 5.0, 10.0, 33.0, 70.5]), "mag": numpy.array([4.0, 4.95, 5.0, 5.05, 6.1, 7.0])}
    if r.uniform() < 0.25:
        # a missing depth / magnitude is stored as NaN: no comparison statement is true for such an event
        pools["dep"] = numpy.append(pools["dep"], numpy.nan)
        if r.uniform() < 0.5:
            pools["mag"] = numpy.append(pools["mag"], numpy.nan)
    ev = []
    for i in range(n):
        ev.append(("e%d" % i, int(r.choice(pool_t)) if r.uniform() < 0.8 else int(r.integers(-2000000000000, 4000000000000)),
                   float(r.choice(pools["lat"])), float(r.choice(pools["lon"])), float(r.choice(pools["dep"])), float(r.choice(pools["mag"]))))
    return ev, pool_t, pools


def spell(v, r):
    k = int(r.integers(0, 4))
    if float(v) == int(v) and k == 0:
        return str(int(v))
    if k == 1:
        return "%r" % float(v)
    if k == 2:
        return ("%e" % float(v)) if float("%e" % float(v)) == float(v) else repr(float(v))
    return repr(float(v))


def gen_statements(r, pool_t, pools, k):
    out = []
    for _ in range(k):
        a = str(r.choice(["origin_time", "latitude", "longitude", "depth", "magnitude", "datetime", "magnitude"]))
        op = str(r.choice(list(OPS)))
        if a == "datetime":
            t = int(r.choice(pool_t))
            t -= t % 1000 if r.uniform() < 0.3 else 0
            d = c15.ms_to_dt(t)
            s = d.strftime("%Y-%m-%d %H:%M:%S") + (".%06d" % d.microsecond if (d.microsecond or r.uniform() < 0.5) else "")
            # the fraction of a second is a decimal fraction: '.5' is 500 ms and '.25' is 250 ms, whatever the number of digits written
            sp = r.uniform()
            if "." in s and sp < 0.5:
                s = s[:-3] if sp < 0.2 else (s.rstrip("0") if not s.endswith(".000000") else s[:-5])
            out.append("datetime %s %s" % (op, s))
        elif a == "origin_time":
            t = int(r.choice(pool_t)) + int(r.choice([0, 0, 1, -1]))
            if r.uniform() < 0.25:
                # thresholds between two integer milliseconds (exact binary fractions; |t| < 2**53 so t + frac is exact)
                out.append("origin_time %s %r" % (op, t + float(r.choice([0.5, -0.5, 0.25, 0.75]))))
            else:
                out.append("origin_time %s %s" % (op, str(t) if r.uniform() < 0.5 else repr(float(t))))
        else:
            key = {"latitude": "lat", "longitude": "lon", "depth": "dep", "magnitude": "mag"}[a]
            finite = pools[key][numpy.isfinite(pools[key])]
            v = float(r.choice(finite)) + float(r.choice([0, 0, 0, 0.05, -0.05]))
            out.append("%s %s %s" % (a, op, spell(round(v, 6), r)))
    return out


def mk(ev, **kw):
    from csep.core.catalogs import CSEPCatalog
    return CSEPCatalog(data=list(ev), **kw)


def partitions(seq):
    """All ways to cut a sequence into consecutive non-empty groups."""
    n = len(seq)
    if n == 0:
        return
    for cuts in range(1 << max(n - 1, 0)):
        groups, cur = [], [seq[0]]
        for i in range(1, n):
            if cuts >> (i - 1) & 1:
                groups.append(cur)
                cur = [seq[i]]
            else:
                cur.append(seq[i])
        groups.append(cur)
        yield groups


def ex_filter(ctx, ev, statements, seed=0):
    ev = [tuple(e) for e in ev]
    rng = numpy.random.default_rng([seed, 4])
    rc = {"exec": "filter", "args": {"ev": ev, "statements": statements, "seed": seed}}
    ctx.current_case = rc
    src = mk(ev)
    rows = rows_of(src)
    want = ref_keep(rows, statements)
    tags = {"n_statements": len(statements), "datetime": any(s.startswith("datetime") for s in statements), "empty": len(ev) == 0}
    ctx.count(1)

    def got_rows(fn):
        ok, res, tb = ctx.call(fn)
        if not ok:
            ctx.violate("filter raised", rc, observed=repr(res), tb=tb, tags=dict(tags, clause="raised", exc=type(res).__name__))
            return None
        return rows_of(res)

    def expect(rows_got, what, extra=None):
        ctx.mon("history:order/grouping/idempotence", 1)
        if rows_got is not None and canon_rows(rows_got) != canon_rows(want):
            ctx.violate("filter result is not exactly the events satisfying every statement (%s)" % what, rc,
                        observed={"kept_ids": [r[0] for r in rows_got][:12], "n": len(rows_got)},
                        expected={"kept_ids": [r[0] for r in want][:12], "n": len(want)}, tags=dict(tags, history=what, **(extra or {})))
    # single call forms
    if len(statements) == 1:
        expect(got_rows(lambda: mk(ev).filter(statements[0], in_place=False)), "single string, in_place=False")
        expect(got_rows(lambda: mk(ev).filter(statements[0])), "single string, in_place=True")
    expect(got_rows(lambda: mk(ev).filter(list(statements), in_place=False)), "list, in_place=False")
    expect(got_rows(lambda: mk(ev).filter(tuple(statements))), "tuple, in_place=True")
    # permutations x groupings
    perms = list(itertools.permutations(statements)) if len(statements) <= 4 else [tuple(statements), tuple(reversed(statements))]
    if len(perms) > 6:
        perms = [perms[i] for i in rng.permutation(len(perms))[:6]]
    for p in perms:
        for groups in partitions(list(p)):
            if len(p) > 3 and rng.uniform() < 0.5:
                continue

            def chain(groups=groups):
                c = mk(ev)
                for g in groups:
                    c = c.filter(g[0] if (len(g) == 1 and rng.uniform() < 0.5) else list(g), in_place=bool(rng.uniform() < 0.5))
                return c
            expect(got_rows(chain), "permutation %s grouped %s" % ([statements.index(s) for s in p], [len(g) for g in groups]))
    # idempotence, and histories that leave `filters` set on the source
    expect(got_rows(lambda: mk(ev).filter(list(statements)).filter(list(statements))), "applied twice in place")

    def notinplace_then_inplace():
        c = mk(ev)
        c.filter(list(statements), in_place=False)
        return c.filter(list(statements))
    expect(got_rows(notinplace_then_inplace), "filter(S, in_place=False) then filter(S) on the source")

    if len(statements) >= 2:
        # history: a is filtered by the list L into a copy b; b is then filtered in place by another statement T; a is filtered by L again -
        # a must be filtered by L only, and the caller's list L must be left as it was
        L = [statements[0]]
        T = statements[1]
        want_L = ref_keep(rows, L)

        def copy_then_original():
            a = mk(ev)
            b = a.filter(L, in_place=False)
            b.filter(T)
            return a.filter() if seed % 2 else a.filter(L)
        got = got_rows(copy_then_original)
        ctx.mon("history:order/grouping/idempotence", 1)
        if got is not None and (canon_rows(got) != canon_rows(want_L) or L != [statements[0]]):
            ctx.violate("filtering a copy changes what the original catalog is filtered by", rc, observed={"kept": len(got), "caller_list": L[:3]},
                        expected={"kept": len(want_L), "caller_list": [statements[0]]}, tags=dict(tags, history="a.filter(L, copy) -> b; b.filter(T); a.filter(L)"))

    def ctor_filters():
        return mk(ev, filters=list(statements)).filter()
    if statements:
        expect(got_rows(ctor_filters), "constructor filters= then filter()")

    # an explicitly empty statement list keeps every event - also on a catalog that remembers statements from its constructor or from an
    # earlier filter(S, in_place=False) (remembered statements are what filter() WITHOUT an argument applies)
    if statements:
        all_rows = canon_rows(rows)
        for lab, fn_ in (("constructor filters=S then filter([])", lambda: mk(ev, filters=list(statements)).filter([] if seed % 2 else (), in_place=bool(seed % 3))),
                         ("filter(S, in_place=False) then filter([]) on the source", lambda: (lambda c: (c.filter(list(statements), in_place=False), c.filter(() if seed % 2 else []))[1])(mk(ev)))):
            got_e = got_rows(fn_)
            ctx.mon("history:order/grouping/idempotence", 1)
            if got_e is not None and canon_rows(got_e) != all_rows:
                ctx.violate("an explicitly empty statement list does not keep every event on a catalog that remembers other statements", rc,
                            observed={"kept": len(got_e)}, expected={"kept": len(all_rows)}, tags=dict(tags, history=lab))

    def reassign_then_same():
        c = mk(ev)
        c.filter(list(statements))
        c.catalog = numpy.array(mk(ev).catalog)
        return c.filter(list(statements))
    expect(got_rows(reassign_then_same), "filter(S), events re-assigned, filter(S) again")
    # datetime == origin_time statement of the same instant
    for s in statements:
        if s.startswith("datetime"):
            f, op, thr = parse_statement(s)
            a = got_rows(lambda: mk(ev).filter(s, in_place=False))
            b = got_rows(lambda: mk(ev).filter("origin_time %s %d" % (op, thr), in_place=False))
            if a is not None and b is not None and canon_rows(a) != canon_rows(b):
                ctx.violate("a datetime statement selects different events than the origin-time statement for the same instant", rc,
                            observed={"datetime": [r[0] for r in a][:10]}, expected={"origin_time": [r[0] for r in b][:10]}, tags=dict(tags, clause="datetime"))
    eq_thr = any(any(OPS["=="](r[{"origin_time": 1, "latitude": 2, "longitude": 3, "depth": 4, "magnitude": 5}[parse_statement(s)[0]]], parse_statement(s)[2])
                     for r in rows) for s in statements)
    if eq_thr or len(statements) >= 2 or tags["datetime"]:
        ctx.nt(digest((ev, statements)))


def ex_spatial(ctx, lat_case, n, seed=0):
    rng = numpy.random.default_rng([seed, 5])
    reg, model, origins = c01.build_region(lat_case)
    rc = {"exec": "spatial", "args": {"lat_case": lat_case, "n": n, "seed": seed}}
    ctx.current_case = rc
    tags = {"spatial": True, "flags": lat_case.get("flags") is not None, "holes": len(lat_case["cells"]) < lat_case["nx"] * lat_case["ny"]}
    dh = float(lat_case["dh"])
    # interior points of every kind of lattice position (active, hole/flagged-out, outside the box); no band points
    ii = rng.integers(-2, lat_case["nx"] + 2, n)
    jj = rng.integers(-2, lat_case["ny"] + 2, n)
    lon = model.ex[0] + (ii + rng.uniform(0.2, 0.8, n)) * dh
    lat = model.ey[0] + (jj + rng.uniform(0.2, 0.8, n)) * dh
    if seed % 3 == 0:
        # no event beyond the bounding box: all inside it, some exactly ON its outer east / north edge (the edges are exclusive)
        ii = rng.integers(0, lat_case["nx"], n)
        jj = rng.integers(0, lat_case["ny"], n)
        lon = model.ex[0] + (ii + rng.uniform(0.2, 0.8, n)) * dh
        lat = model.ey[0] + (jj + rng.uniform(0.2, 0.8, n)) * dh
        on_e = rng.uniform(size=n) < 0.15
        on_n = (rng.uniform(size=n) < 0.15) & ~on_e
        lon = numpy.where(on_e, float(model.ex[-1]), lon)
        lat = numpy.where(on_n, float(model.ey[-1]), lat)
        tags = dict(tags, events="inside-the-closed-box-only, some on the outer east/north edge")
    primary, alts, inband = model.admissible(lon, lat)
    keep = ~inband
    lon, lat, primary = lon[keep], lat[keep], primary[keep]
    cat = fixtures.catalog(lon, lat, numpy.full(lon.size, 5.0))
    want = [("%d" % i).encode() for i in range(lon.size) if primary[i] >= 0]
    ctx.count(1)
    from decimal import Decimal
    dhd = Decimal(lat_case["dh"])
    # a larger region (the full rectangle, two cells wider on every side) the catalog may already be bound to
    big = fixtures.region(lat_case["nx"] + 4, lat_case["ny"] + 4, lat_case["dh"], Decimal(lat_case["ax"]) - 2 * dhd, Decimal(lat_case["ay"]) - 2 * dhd)
    from csep.core.regions import CartesianGrid2D
    for in_place, bound in ((False, None), (True, None), (False, "ctor"), (True, "earlier-filter"), (bool(seed % 2), "earlier-filter-twin")):
        c = fixtures.catalog(lon, lat, numpy.full(lon.size, 5.0), region=big if bound == "ctor" else None)
        tags = dict(tags, bound_to_other_region=bound)
        if bound == "earlier-filter-twin":
            # history: the same catalog object was first reduced in place to a twin of the region under test - same cells, spacing and name,
            # every cell active (the two compare equal: flags are not part of a region's dictionary form) - then filtered to the region itself
            okb, twin, tbb = ctx.call(CartesianGrid2D.from_origins, numpy.array(reg.origins()), dh=reg.dh, name=reg.name)
            if okb:
                okb, _c, tbb = ctx.call(c.filter_spatial, twin, in_place=True)
            if not okb:
                continue
            ctx.mon("history:spatial-rebind", 1)
        if bound == "earlier-filter":
            # history: filtered to the larger region first (which binds it), then to the region under test
            okb, c, tbb = ctx.call(c.filter_spatial, big, in_place=False)
            if not okb:
                continue
            ctx.mon("history:spatial-rebind", 1)
        want_here = want
        if bound == "ctor":
            ctx.mon("history:spatial-rebind", 1)
        ok, res, tb = ctx.call(c.filter_spatial, reg, in_place=in_place)
        if not ok:
            ctx.violate("filter_spatial raised", rc, observed=repr(res), tb=tb, tags=tags)
            continue
        got = res.get_event_ids().tolist()
        if got != want:
            ctx.violate("spatial filtering does not keep exactly the events inside the region", rc,
                        observed={"kept": len(got), "extra": [g.decode() for g in got if g not in set(want)][:6]}, expected={"inside": len(want)},
                        tags=dict(tags, clause="spatial", in_place=in_place))
        ok2, res2, tb2 = ctx.call(res.filter_spatial, reg, in_place=False)
        if not ok2 or res2.get_event_ids().tolist() != got:
            ctx.violate("re-applying the spatial filter changes the result", rc, observed=None if ok2 else repr(res2), tags=dict(tags, clause="spatial-idempotence"))
    ctx.nt(digest(("sp", lat_case, n, seed)))


def ex_load(ctx, ev, statements, lat_case, seed=0):
    """csep.load_catalog(apply_filters=True) == filter then filter_spatial on the same file."""
    if not statements:
        return        # apply_filters=True with no statement at all asks the caller for statements (an explicit refusal, not a filtering outcome)
    import csep
    ev = [tuple(e) for e in ev]
    reg, model, origins = c01.build_region(lat_case)
    src = mk(ev, catalog_id=1)
    tmp = scratch_dir("c04-")
    path = os.path.join(tmp, "cat.csv")
    rc = {"exec": "load", "args": {"ev": ev, "statements": statements, "lat_case": lat_case, "seed": seed}}
    ctx.current_case = rc
    try:
        src.write_ascii(path)
        ok, a, tb = ctx.call(csep.load_catalog, path, apply_filters=True, filters=list(statements), region=reg)
        ok2, b, tb2 = ctx.call(lambda: csep.load_catalog(path).filter(list(statements)).filter_spatial(reg))
        ctx.count(1)
        ctx.mon("history:load(apply_filters)", 1)
        if ok != ok2:
            ctx.violate("load_catalog(apply_filters=True) and load-then-filter disagree on failure", rc, observed=[repr(a)[:100], repr(b)[:100]], tags={"clause": "load"})
        elif ok and canon_rows(rows_of(a)) != canon_rows(rows_of(b)):
            ctx.violate("load_catalog(apply_filters=True) != filter then filter_spatial on the same file", rc,
                        observed=[r[0] for r in rows_of(a)][:8], expected=[r[0] for r in rows_of(b)][:8], tags={"clause": "load"})
    finally:
        for f in os.listdir(tmp):
            os.remove(os.path.join(tmp, f))
        os.rmdir(tmp)


def ex_noop(ctx):
    pass


EXECUTORS = {"filter": ex_filter, "spatial": ex_spatial, "load": ex_load, "noop": ex_noop}


def run(ctx):
    install(ctx)
    thorough = ctx.tier == "thorough"
    n = (450000 if thorough else 700) // ctx.nshards
    for j in range(n):
        r = ctx.rng("c04", j)
        nev = int(r.choice([0, 1, 3, 12, 60, 200 if j % 25 == 0 else 30]))
        ev, pool_t, pools = gen_catalog(r, nev)
        k = int(r.choice([1, 1, 2, 3, 4]))
        st = gen_statements(r, pool_t, pools, k)
        if j % 23 == 5:
            st = []                       # no statement at all (a programmatically assembled list of optional cuts, none active): every event is kept
        ex_filter(ctx, ev, st, seed=j)
        if j % 7 == 0:
            case = c01.gen_lattice(r, force=int(r.integers(0, 8)))
            if case["ctor"] == "midpoint":
                case["ctor"] = "from_origins"
            ex_spatial(ctx, case, int(r.integers(0, 300)), seed=j)
            if j % 21 == 0 and nev and st:      # (load_catalog(apply_filters=True) with no statement at all asks for statements: not a filtering outcome)
                # place the catalog's events over the lattice so the spatial part of apply_filters matters
                ev2 = [(e[0], e[1], float(case["ay"]) + float(r.uniform(-1, case["ny"] + 1)) * float(case["dh"]),
                        float(case["ax"]) + float(r.uniform(-1, case["nx"] + 1)) * float(case["dh"]), e[4], e[5]) for e in ev]
                ex_load(ctx, ev2, st, case, seed=j)
        if j % 100 == 0:
            ctx.sample({"n_events": nev, "statements": st, "first_event": ev[:1]})
