"""C13 - a catalog forecast is a stable, re-iterable collection (history property)."""
import csv
import itertools
import math
import os
import tempfile

import numpy

from .. import fixtures
from ..core import digest, scratch_dir
from . import c12

META = {
    "title": "Catalog forecast: stable, re-iterable collection",
    "level": "exploration",
    "rule": ("histories over the alphabet {ITER, COUNTS, RATES, SCOUNTS, MCOUNTS, N, S, M, PL, RM, MLL} applied to one CatalogForecast, on 13 "
             "configurations (in-memory list with/without n_cat, file+store=True, file+store=False) x filters on/off x spatial filter on/off, "
             "small forecasts of 3..6 catalogs incl. empty ones and (when filters are on) events the filters remove. After every operation the "
             "observable answer is compared with a sequential reference model (the filtered catalog list M) or, for evaluations, with the same "
             "call on the equivalent plain forecast (in-memory catalogs pre-filtered by the harness, nothing configured). Exhaustive: all histories of length <= 2 (quick) / <= 3 plus length 4 over "
             "{ITER,COUNTS,RATES,N,S,M} (thorough) on every configuration; random histories up to length 12. Non-trivial: history has >= 2 "
             "operations; distinct = (configuration, forecast, history)."),
    "assumptions": ["reference list M computed by the harness (magnitude threshold + C01-style inside test on interior points)",
                    "evaluation correctness itself is C10's business: here only history independence"],
    "deciding": ["history:pass-stream", "history:counts", "history:rates", "history:evaluation-independence", "invariant:quiescent-state"],
    "exhaustive_tiers": {"quick": {"histories of length <= 2 over 12 operations x 18 configurations": True},
                         "thorough": {"histories of length <= 3 over 12 ops + length 4 over 6 state-touching ops x 18 configurations": True}},
}
META["added"] = "Added: in-memory catalogs bound to a larger region under the spatial filter. catalogs gridded on another region before. regions that do not fill their bounding box (a missing lattice cell; events in the hole are outside), magnitudes far above the last edge in the synthetic catalogs. in-memory forecasts without n_cat (13 configurations), spatial_counts(cartesian=True) as a twelfth operation, empty-first catalog layouts. in-memory catalogs that only declare the forecast's filter statements. region-less in-memory catalogs, reference = equivalent pre-filtered plain forecast. empty observations, id gaps in files, catalogs bound to another region. the caller overwrites returned count arrays; the completeness filter (apply_mct + mainshock) as a third configurable filter."
MANIFEST = {
    "technique": "sequential history log on a live CatalogForecast checked op-by-op against a reference model (filtered catalog list) and, for evaluations, against the equivalent pre-filtered plain forecast; quiescent-state invariant after each complete operation; exhaustive short histories + random long ones",
    "level_text": "All operation histories up to length 2 (quick) / 3-4 (thorough) over the 12 public operations are enumerated on 13 source/filter configurations; each step's observable result (pass stream, event counts, n_cat, expected rates, marginals, the six evaluations) must equal the single-pass reference regardless of what was called before, and the iterator must be back in its initial state after every complete operation.",
    "level_note": "Trusted: harness reference of the filtered catalog list; fresh-forecast comparison for evaluations. Aborted passes are outside the quantifier.",
}
WATCHDOG_S = {"quick": 1200, "thorough": 7200}
OPS = ["ITER", "COUNTS", "RATES", "SCOUNTS", "SCART", "MCOUNTS", "N", "S", "M", "PL", "RM", "MLL"]
STATE_OPS = ["ITER", "COUNTS", "RATES", "N", "S", "M"]
SOURCES = ["memory", "memory_no_ncat", "file_store", "file_nostore"]
MIN_MAG = 4.95


def shards(tier):
    return 4 if tier == "quick" else 16


def configs():
    out = []
    for src in SOURCES:
        for filt in (False, True):
            for sp in (False, True):
                if src == "memory_no_ncat" and (filt or sp):
                    continue
                out.append({"source": src, "filters": filt, "spatial": sp})
    # the third configurable filter: the time-dependent magnitude of completeness after a mainshock (apply_mct + event), alone and with a statement
    for src in SOURCES:
        if src != "memory_no_ncat":
            out.append({"source": src, "filters": False, "spatial": False, "mct": True})
    out.append({"source": "memory", "filters": True, "spatial": False, "mct": True})
    out.append({"source": "file_nostore", "filters": True, "spatial": True, "mct": True})
    return out


# mainshock of the completeness filter: M7.2 one minute before the first synthetic event (events follow at 1 s spacing). Helmstetter et al. (2006)
# Eq. 15: Mc(t) = M - 4.5 - 0.75 log10(t [days]); at 60..78 s Mc lies between 5.07 and 4.983 (removes the M4.98 events, keeps M5.08), from 79 s on
# it is below 4.98 - the nearest event magnitude is more than 1e-3 away from Mc at every whole second, so no decision hinges on round-off
MCT_M, MCT_T0 = 7.2, 1262304000000 - 60000


def mct_removes(e):
    dt = e[1] - MCT_T0
    t_crit_ms = 10 ** -((2.5 - MCT_M + 4.5) / 0.75) * 86400000.0
    if dt < 0 or dt > t_crit_ms:
        return False
    if dt == 0:
        return True
    return e[5] < MCT_M - 4.5 - 0.75 * math.log10(dt / 86400000.0)


def gen_forecast(rng, cfg):
    """Synthetic catalogs as event tuples; events the configured filters remove are only generated when that filter is on."""
    mags = fixtures.mag_bins("4.95", "0.1", 4)
    nx, ny, dh, ax, ay = 3, 2, 0.5, 10.0, 20.0
    ncat = int(rng.integers(3, 7))
    cats = []
    k = 0
    # every third forecast: the region does not fill its bounding box (one lattice cell is missing); a point in the hole is outside the region
    hole = [int(rng.integers(0, nx)), int(rng.integers(0, ny))] if rng.uniform() < 0.34 else None

    def cell():
        while True:
            i_, j_ = int(rng.integers(0, nx)), int(rng.integers(0, ny))
            if hole is None or [i_, j_] != hole:
                return i_, j_
    for c in range(ncat):
        n = int(rng.choice([0, 1, 2, 4, 7]))
        if c == 1:
            n = 0
        evs = []
        for _ in range(n):
            i, j = cell()
            lon = ax + (i + float(rng.uniform(0.2, 0.8))) * dh
            lat = ay + (j + float(rng.uniform(0.2, 0.8))) * dh
            mb = int(rng.integers(0, 4))
            mag = float(mags[mb] + 0.03)
            if mb == 3 and rng.uniform() < 0.4:
                mag = float(mags[3] + float(rng.choice([0.12, 1.7, 3.4])))      # the last magnitude bin is open-ended
            if cfg["spatial"] and rng.uniform() < 0.25:
                lon = ax + (nx + 1.5) * dh                     # outside the region: removed by the spatial filter
                if hole is not None and rng.uniform() < 0.6:
                    lon, lat = ax + (hole[0] + 0.4) * dh, ay + (hole[1] + 0.6) * dh      # inside the bounding box, in the missing cell
            if cfg["filters"] and rng.uniform() < 0.25:
                mag = 4.2                                      # below the magnitude threshold: removed by the filter
            evs.append(("e%d" % k, 1262304000000 + 1000 * k, lat, lon, 5.0, mag))
            k += 1
        cats.append(evs)
    obs = []
    for q in range(int(rng.integers(1, 6))):
        i, j = cell()
        obs.append(("o%d" % q, 1262304000000 + q, ay + (j + 0.5) * dh, ax + (i + 0.5) * dh, 5.0, float(mags[int(rng.integers(0, 4))] + 0.03)))
    if rng.uniform() < 0.15:
        obs = []          # an observed catalog without events: the tests signal it, and must still leave the forecast ready for the next pass
    return {"cats": cats, "obs": obs, "grid": [nx, ny, dh, ax, ay], "hole": hole}


def _cells(fc):
    nx, ny = fc["grid"][0], fc["grid"][1]
    hole = fc.get("hole")
    return [(i, j) for i in range(nx) for j in range(ny) if hole is None or [i, j] != list(hole)]


def _active(fc):
    return None if fc.get("hole") is None else set(_cells(fc))


def reference(fc, cfg):
    nx, ny, dh, ax, ay = fc["grid"]
    M = []
    for evs in fc["cats"]:
        keep = []
        for e in evs:
            if cfg["filters"] and not (e[5] >= MIN_MAG):
                continue
            if cfg.get("mct") and mct_removes(e):
                continue
            inside = (ax <= e[3] < ax + nx * dh) and (ay <= e[2] < ay + ny * dh)
            if inside and fc.get("hole") is not None:
                inside = [int(math.floor((e[3] - ax) / dh)), int(math.floor((e[2] - ay) / dh))] != list(fc["hole"])
            if cfg["spatial"] and not inside:
                continue
            keep.append(e)
        M.append(keep)
    return M


class Built:
    pass


def build(fc, cfg, tmpdir):
    """Fresh CatalogForecast for this configuration (every call builds new objects from the same source)."""
    import csep
    from csep.core.catalogs import CSEPCatalog
    from csep.core.forecasts import CatalogForecast
    nx, ny, dh, ax, ay = fc["grid"]
    mags = fixtures.mag_bins("4.95", "0.1", 4)
    reg = fixtures.region(nx, ny, dh, ax, ay, magnitudes=mags, active=_active(fc))
    kw = {"region": reg, "apply_filters": bool(cfg["filters"] or cfg["spatial"] or cfg.get("mct")), "filter_spatial": bool(cfg["spatial"]),
          "filters": ["magnitude >= %r" % MIN_MAG] if cfg["filters"] else [], "name": "cf"}
    if cfg.get("mct"):
        import types
        import datetime as _dt
        kw["apply_mct"] = True
        kw["event"] = types.SimpleNamespace(magnitude=MCT_M, time=_dt.datetime(1970, 1, 1, tzinfo=_dt.timezone.utc) + _dt.timedelta(milliseconds=MCT_T0))
    if cfg["source"].startswith("memory"):
        cats = []
        # every other forecast: the in-memory catalogs carry no region of their own (the forecast's region is bound to them when they are gridded)
        creg = reg if len(fc["cats"]) % 2 else None
        if len(fc["cats"]) % 3 == 2 and reg.num_nodes > 1:
            # ... or arrive bound to ANOTHER region object (same cells listed in reverse, other magnitude edges)
            from csep.core.regions import CartesianGrid2D
            creg = CartesianGrid2D.from_origins(reg.origins()[::-1].copy(), dh=reg.dh, magnitudes=numpy.asarray(mags) + 0.05)
        if cfg["spatial"] and len(fc["cats"]) % 3 == 0:
            # ... or bound to a LARGER region (three more columns to the east, which hold the events the forecast's spatial filter removes): the
            # forecast's own region decides what is inside
            creg = fixtures.region(nx + 3, ny, dh, ax, ay, magnitudes=mags)
        for i, evs in enumerate(fc["cats"]):
            if kw["filters"] and i % 3 == 1:
                # the catalog only DECLARES the forecast's filter statements (constructor argument); nothing has been applied to it
                c = CSEPCatalog(data=list(evs), catalog_id=i, region=creg, filters=list(kw["filters"]))
            else:
                c = CSEPCatalog(data=list(evs), catalog_id=i, region=creg)
                if kw["filters"] and i % 3 == 2:
                    # history: the user looked at a filtered copy before (in_place=False leaves this catalog itself unfiltered)
                    c.filter(list(kw["filters"]), in_place=False)
            if creg is not None and creg is not reg and i % 2 == 0:
                # history: the catalog was gridded on the other region (it took part in another forecast's evaluation) before
                try:
                    c.spatial_counts()
                except Exception:  # noqa
                    pass
            cats.append(c)
        if cfg["source"] == "memory":
            kw["n_cat"] = len(cats)
        f = CatalogForecast(catalogs=cats, **kw)
    else:
        path = os.path.join(tmpdir, "forecast.csv")
        if not os.path.exists(path):
            # empty catalogs are written as marker rows or simply omitted (id gaps, leading missing ids), alternating
            c12.write_file(path, [[tuple(e) for e in evs] for evs in fc["cats"]], [bool((i + len(fc["cats"])) % 2) for i in range(len(fc["cats"]))], True, "frac")
        f = csep.load_catalog_forecast(path, store=(cfg["source"] == "file_store"), **kw)
    obs = CSEPCatalog(data=list(fc["obs"]), region=reg, name="obs")
    return f, obs, reg


def build_plain(fc, cfg):
    """The equivalent plain forecast: in-memory catalogs that already hold exactly the events of the reference pass M (filters applied once by the
    harness), bound to the region, nothing left for the forecast to filter. Evaluating the configured forecast must give what evaluating this gives."""
    from csep.core.catalogs import CSEPCatalog
    from csep.core.forecasts import CatalogForecast
    nx, ny, dh, ax, ay = fc["grid"]
    mags = fixtures.mag_bins("4.95", "0.1", 4)
    reg = fixtures.region(nx, ny, dh, ax, ay, magnitudes=mags, active=_active(fc))
    M = reference(fc, cfg)
    cats = [CSEPCatalog(data=list(evs), catalog_id=i, region=reg) for i, evs in enumerate(M)]
    f = CatalogForecast(catalogs=cats, region=reg, n_cat=len(cats), name="cf")
    obs = CSEPCatalog(data=list(fc["obs"]), region=reg, name="obs")
    return f, obs, reg


def grid_ref(M, fc):
    nx, ny, dh, ax, ay = fc["grid"]
    mags = fixtures.mag_bins("4.95", "0.1", 4)
    cells = _cells(fc)
    tot = numpy.zeros((len(cells), 4))
    for evs in M:
        for e in evs:
            i = int(math.floor((e[3] - ax) / dh))
            j = int(math.floor((e[2] - ay) / dh))
            k = min(int(numpy.searchsorted(mags, e[5], side="right") - 1), 3)
            tot[cells.index((i, j)), k] += 1
    return tot / len(M)


def result_sig(res):
    if res is None:
        return None

    def norm(x):
        if x is None or isinstance(x, str):
            return x
        try:
            a = numpy.asarray(x, dtype=float)
            return ["nan" if math.isnan(v) else v for v in a.ravel().tolist()]
        except Exception:  # noqa
            return repr(x)
    return {"type": type(res).__name__, "status": res.status, "stat": norm(res.observed_statistic), "quantile": norm(res.quantile),
            "dist": norm(res.test_distribution)}


def do_op(ctx, op, f, obs):
    import csep.core.catalog_evaluations as ce
    if op == "ITER":
        return ctx.call(lambda: [(c.catalog_id, [e[0] for e in c.catalog.tolist()]) for c in f])
    def scribbled(get):
        # the caller owns what a request returns: the answer is read, then the returned array is overwritten in place (a caller sorting or
        # normalising its result); what the forecast reports on the next request must not depend on that
        raw = get()
        val = numpy.array(raw, copy=True)
        if isinstance(raw, numpy.ndarray) and raw.size and raw.flags.writeable:
            raw[...] = -7
            ctx.add("returned_arrays_overwritten_by_the_caller")
        return val
    if op == "COUNTS":
        return ctx.call(lambda: scribbled(lambda: f.get_event_counts(verbose=False)).tolist())
    if op == "RATES":
        return ctx.call(f.get_expected_rates)
    if op == "SCOUNTS":
        return ctx.call(lambda: scribbled(f.spatial_counts))
    if op == "SCART":
        return ctx.call(lambda: scribbled(lambda: f.spatial_counts(cartesian=True)))
    if op == "MCOUNTS":
        return ctx.call(lambda: scribbled(f.magnitude_counts))
    fn = {"N": ce.number_test, "S": ce.spatial_test, "M": ce.magnitude_test, "PL": ce.pseudolikelihood_test,
          "RM": ce.resampled_magnitude_test, "MLL": ce.MLL_magnitude_test}[op]
    kw = {"verbose": False}
    if op in ("RM", "MLL"):
        kw["seed"] = 123
    return ctx.call(lambda: result_sig(fn(f, obs, **kw)))


def ex_history(ctx, fc, cfg, ops, fresh_cache=None):
    tmp = scratch_dir("c13-")
    try:
        _run_history(ctx, fc, cfg, ops, tmp, fresh_cache if fresh_cache is not None else {})
    finally:
        for fn in os.listdir(tmp):
            os.remove(os.path.join(tmp, fn))
        os.rmdir(tmp)


def _run_history(ctx, fc, cfg, ops, tmp, cache):
    rc = {"exec": "history", "args": {"fc": fc, "cfg": cfg, "ops": list(ops)}}
    ctx.current_case = rc
    M = reference(fc, cfg)
    N = len(M)
    mean = grid_ref(M, fc)
    ok, built, tb = ctx.call(build, fc, cfg, tmp)
    ctx.count(1)
    tags0 = {"source": cfg["source"], "filters": cfg["filters"], "spatial": cfg["spatial"], "mct": bool(cfg.get("mct"))}
    if not ok:
        ctx.violate("building the forecast raised", rc, observed=repr(built), tb=tb, tags=tags0)
        return
    f, obs, reg = built
    first_rates = None
    for step, op in enumerate(ops):
        tags = dict(tags0, op=op, step=step, prefix="+".join(ops[:step]) or "-", first_op=step == 0)
        ok, val, tb = do_op(ctx, op, f, obs)
        if not ok:
            if op in ("N", "S", "M", "PL", "RM", "MLL"):
                # an evaluation that is undefined for this forecast (e.g. every synthetic catalog empty) raises on the equivalent plain forecast too:
                # that is C10's business; here only a failure that depends on the history counts
                okf, fresh, tbf = ctx.call(build_plain, fc, cfg)
                okr, ref, tbr = do_op(ctx, op, fresh[0], fresh[1]) if okf else (True, None, None)
                if not okr and type(ref) is type(val):
                    ctx.add("evaluation_raises_on_equivalent_plain_forecast_too")
                    return
            ctx.violate("operation raised", rc, observed=repr(val), tb=tb, tags=dict(tags, clause="raised", exc=type(val).__name__))
            return
        if op == "ITER":
            ctx.mon("history:pass-stream", 1)
            want = [(i, [e[0].encode() if isinstance(e[0], str) else e[0] for e in evs]) for i, evs in enumerate(M)]
            if val != want:
                ctx.violate("a complete pass does not yield the same catalogs in the same order with the filters applied once", rc,
                            observed=[(a, len(b)) for a, b in val], expected=[(a, len(b)) for a, b in want], tags=dict(tags, clause="pass-stream"))
        elif op == "COUNTS":
            ctx.mon("history:counts", 1)
            if val != [len(m) for m in M]:
                ctx.violate("reported per-catalog event counts are not those of a single pass", rc, observed=val, expected=[len(m) for m in M],
                            tags=dict(tags, clause="counts", grown=len(val) > N))
        elif op == "RATES":
            ctx.mon("history:rates", 1)
            if val is None or not hasattr(val, "data"):
                ctx.violate("expected rates not returned", rc, observed=repr(val), tags=dict(tags, clause="rates-returned", repeated="RATES" in ops[:step]))
            else:
                if not numpy.allclose(numpy.asarray(val.data, dtype=float), mean, rtol=1e-12, atol=0):
                    ctx.violate("expected rates != per-cell mean of the synthetic catalogs' space-magnitude counts", rc,
                                observed=numpy.asarray(val.data)[:3], expected=mean[:3], tags=dict(tags, clause="rates-value"))
                if first_rates is not None and val is not first_rates and not numpy.array_equal(numpy.asarray(val.data), numpy.asarray(first_rates.data)):
                    ctx.violate("expected rates differ between requests", rc, tags=dict(tags, clause="rates-stable"))
                if first_rates is None:
                    first_rates = val
        elif op in ("SCOUNTS", "MCOUNTS", "SCART"):
            ctx.mon("history:rates", 1)
            want = mean.sum(axis=1) if op != "MCOUNTS" else mean.sum(axis=0)
            if op == "SCART":
                # the bounding-box layout of the same per-cell values (the layout itself is C01's business)
                want = numpy.asarray(reg.get_cartesian(want), dtype=float)
            if numpy.shape(val) != numpy.shape(want) or not numpy.allclose(val, want, rtol=1e-12, atol=0, equal_nan=True):
                ctx.violate("forecast marginal counts != marginals of the mean rates", rc, observed=val, expected=want, tags=dict(tags, clause="marginals"))
        else:
            ctx.mon("history:evaluation-independence", 1)
            key = (digest(fc), cfg["source"], cfg["filters"], cfg["spatial"], bool(cfg.get("mct")), op)
            if key not in cache:
                # reference: the same evaluation on the equivalent plain forecast (pre-filtered in-memory catalogs, nothing configured)
                okf, fresh, tbf = ctx.call(build_plain, fc, cfg)
                okr, ref, tbr = do_op(ctx, op, fresh[0], fresh[1]) if okf else (False, None, None)
                cache[key] = (okr, ref)
            okr, ref = cache[key]
            if okr and val != ref:
                ctx.violate("an evaluation's result depends on what was called on the forecast before", rc, observed=val, expected=ref,
                            tags=dict(tags, clause="history-dependence"))
            if op == "N" and val is not None and [int(x) for x in val["dist"]] != [len(m) for m in M]:
                ctx.violate("number-test distribution is not the single-pass catalog sizes", rc, observed=val["dist"], expected=[len(m) for m in M],
                            tags=dict(tags, clause="counts"))
        # quiescent-state invariant after each complete public operation
        ctx.mon("invariant:quiescent-state", 1)
        if getattr(f, "_idx", 0) != 0:
            ctx.violate("iterator index not reset after a complete operation", rc, observed=f._idx, expected=0, tags=dict(tags, clause="idx"))
        if f.n_cat is not None and f.n_cat != N and op != "RATES" or (op in ("ITER", "COUNTS", "N") and f.n_cat != N):
            ctx.violate("number of catalogs reported by the forecast is not that of a single pass", rc, observed=f.n_cat, expected=N, tags=dict(tags, clause="n_cat"))
    if len(ops) >= 2:
        ctx.nt(digest((fc, cfg, list(ops))))


EXECUTORS = {"history": ex_history}


def install(ctx):
    pass


def run(ctx):
    thorough = ctx.tier == "thorough"
    cfgs = configs()
    ci = 0
    cache = {}
    nfc = 2
    for q in range(nfc):
        for cfg in cfgs:
            fc = gen_forecast(numpy.random.default_rng([ctx.seed, q, SOURCES.index(cfg["source"]), int(cfg["filters"]), int(cfg["spatial"])]), cfg)
            hs = [(a,) for a in OPS] + list(itertools.product(OPS, repeat=2))
            if thorough:
                hs += list(itertools.product(OPS, repeat=3)) + list(itertools.product(STATE_OPS, repeat=4))
            if q > 0 and not thorough:
                hs = hs[::5]
            for h in hs:
                ci += 1
                if not ctx.mine(ci):
                    continue
                ex_history(ctx, fc, cfg, list(h), cache)
            if ctx.shard == 0:
                ctx.sample({"config": cfg, "catalog_sizes": [len(c) for c in fc["cats"]], "n_observed": len(fc["obs"]),
                            "histories": "all of length <= %d" % (3 if thorough else 2)})
    # a swarm forecast: four catalogs of ~9000 events each in ONE space-magnitude bin (plus an empty catalog): each catalog's count fits a 16-bit
    # integer, their sum over the forecast does not - the expected rate of that bin is the mean of the per-catalog counts all the same
    for k, (src, hist) in enumerate((("memory", ["RATES", "COUNTS", "RATES"]), ("file_nostore", ["SCOUNTS", "RATES", "MCOUNTS"]))):
        if (ctx.shard + k) % 2 and not thorough:
            continue
        cfg = {"source": src, "filters": False, "spatial": False}
        r = ctx.rng("c13swarm", k)
        fc = gen_forecast(r, cfg)
        kk = sum(len(c) for c in fc["cats"])
        heavy = []
        for c in range(4):
            n = int(r.integers(8800, 9300))
            heavy.append([("s%d" % (kk + i), 1262304000000 + 1000 * (kk + i), 20.0 + 0.3, 10.0 + 0.7, 5.0, 5.08) for i in range(n)])
            kk += n
        fc["cats"] = heavy[:2] + [[]] + heavy[2:]
        fc["hole"] = None
        ctx.mon("workload:swarm-forecast", 1)
        ex_history(ctx, fc, cfg, hist, {})
    # random longer histories
    for j in range((24000 if thorough else 300) // ctx.nshards):
        r = ctx.rng("c13", j)
        cfg = cfgs[int(r.integers(0, len(cfgs)))]
        fc = gen_forecast(r, cfg)
        h = [OPS[int(k)] for k in r.integers(0, len(OPS), int(r.integers(3, 13)))]
        ex_history(ctx, fc, cfg, h, {})
        if j % 50 == 0:
            ctx.sample({"config": cfg, "history": h})
