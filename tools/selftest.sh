#!/bin/bash
# tools/selftest.sh [jobs] : detection-power regression: every own mutant and every seeded change must make its check report a VIOLATION.
# Not registered in MANIFEST (it runs the checks against scratch copies under /var/tmp via VERIF_REPO).
J=${1:-4}
cd "$(dirname "$0")/.."
{
  for m in mutants/*.patch; do
    c=$(basename "$m" | cut -d_ -f1 | tr a-z A-Z)
    echo "$m $c"
  done
  for d in seeded/*/; do
    id=$(basename "$d")
    for c in $(python3 -c "import json;m=json.load(open('$d/meta.json'));print(' '.join(sorted({k.split()[0] for k in m['detected_by']})))"); do
      echo "$d/patch.diff $c"
    done
  done
} | xargs -P "$J" -L 1 bash -c 'MUT_LINES=0 ./tools/mutant.sh "$0" "$1" 2>&1 | tail -1' | sort | tee /tmp/selftest.out | grep -v "exit 1$"
echo "selftest: $(grep -c "exit 1$" /tmp/selftest.out) detected, $(grep -vc "exit 1$" /tmp/selftest.out) NOT detected (listed above)"
