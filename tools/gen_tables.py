#!/usr/bin/env python3
"""Regenerate the generated tables of DESIGN.md (between <!-- BEGIN:x --> / <!-- END:x --> markers) from
known_findings.json, seeded/*/meta.json and mutants/."""
import glob, json, os, re, subprocess
V = os.path.dirname(os.path.dirname(os.path.abspath(__file__)))
kf = json.load(open(os.path.join(V, "known_findings.json")))["findings"]
rows = ["| id | property | status | repo commit | what failed |", "|---|---|---|---|---|"]
for f in kf:
    rows.append("| %s | %s | %s | %s | %s |" % (f["id"], f["property"], f["status"], f.get("commit", "-"), f["line"].split(" ", 3)[-1] if f.get("line") else f["what"]))
findings = "\n".join(rows)
rows = ["| seeded change | property | needs to manifest | confirmed (demo fails, suite still passes) | detected by |", "|---|---|---|---|---|"]
for d in sorted(glob.glob(os.path.join(V, "seeded", "*"))):
    mp = os.path.join(d, "meta.json")
    if not os.path.exists(mp):
        continue
    m = json.load(open(mp))
    det = ", ".join("%s (%s)" % (k, "; ".join(v["clauses"][:2])[:110]) for k, v in m["checks"].items() if v["detected"]) or "**missed**"
    rows.append("| %s | %s | %s | %s | %s |" % (m["id"], m["property"], m.get("needs_to_manifest", "see NOTES.md"), "yes" if m["confirmed"] else "NO", det))
seeded = "\n".join(rows)
muts = sorted(os.path.basename(p) for p in glob.glob(os.path.join(V, "mutants", "*.patch")))
mut = "\n".join("- `%s`" % m for m in muts)
p = os.path.join(V, "DESIGN.md")
s = open(p).read()
for name, body in (("findings", findings), ("seeded", seeded), ("mutants", mut)):
    s = re.sub(r"(<!-- BEGIN:%s -->)(.*?)(<!-- END:%s -->)" % (name, name), lambda m_: m_.group(1) + "\n" + body + "\n" + m_.group(3), s, flags=re.S)
open(p, "w").write(s)
print("tables regenerated:", len(kf), "findings,", len(glob.glob(os.path.join(V, "seeded", "*"))), "seeded,", len(muts), "mutants")
