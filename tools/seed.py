#!/usr/bin/env python3
"""tools/seed.py <Cxx> <variant> [--checks C07,C13] [--tier quick] [--src /tmp/seed-out/Cxx] [--needs "..."]

Confirm a sub-agent's property-breaking change and run our checks against it:
  1. scratch copy of /repo HEAD under /var/tmp (never /repo, never /verif); demo must PASS there;
  2. apply patch_<variant>.diff; the pinned baseline suite must still give the 153 stable passes;
  3. demo_<variant>.py must FAIL with the patch;
  4. run ./check <id> <tier> with VERIF_REPO=<scratch> for each listed check; record exit codes;
  5. store /verif/seeded/<Cxx>-<variant>/{patch.diff, demo.py, NOTES.md, meta.json}; remove the scratch copy.
"""
import json
import os
import re
import shutil
import subprocess
import sys
import tempfile
import time

V = os.path.dirname(os.path.dirname(os.path.abspath(__file__)))
BASE = json.load(open("/root/.vp/BASELINE.json"))
STABLE = set(BASE["stable_pass"])


def sh(cmd, cwd=None, env=None, timeout=3600):
    e = dict(os.environ)
    e.update(env or {})
    r = subprocess.run(cmd, shell=True, cwd=cwd, env=e, capture_output=True, text=True, timeout=timeout)
    return r.returncode, r.stdout + r.stderr


def run_suite(tree):
    junit = os.path.join(tree, "junit.xml")
    rc, out = sh("/venv/bin/python -m pytest -q -p no:cacheprovider --timeout=900 --continue-on-collection-errors --junitxml=%s" % junit,
                 cwd=tree, env={"PYTHONPATH": tree, "PYTHONDONTWRITEBYTECODE": "1"})
    import xml.etree.ElementTree as ET
    passed = set()
    for tc in ET.parse(junit).getroot().iter("testcase"):
        if not any(ch.tag in ("failure", "error", "skipped") for ch in tc):
            passed.add("%s::%s" % (tc.get("classname"), tc.get("name")))
    os.remove(junit)
    return passed, out.strip().splitlines()[-1] if out.strip() else ""


def main():
    a = sys.argv[1:]
    pid, var = a[0], a[1]
    opt = {a[i][2:]: a[i + 1] for i in range(2, len(a) - 1, 2)}
    src = opt.get("src", "/tmp/seed-out/%s" % pid)
    checks = opt.get("checks", pid).split(",")
    tier = opt.get("tier", "quick")
    patch = os.path.join(src, "patch_%s.diff" % var)
    demo = os.path.join(src, "demo_%s.py" % var)
    name = "%s-%s" % (pid, var)
    dst = os.path.join(V, "seeded", name)
    tree = tempfile.mkdtemp(prefix="pycsep-seed.", dir="/var/tmp")
    meta = {"id": name, "property": pid, "variant": var, "ran": time.strftime("%Y-%m-%dT%H:%M:%SZ", time.gmtime())}
    try:
        sh("rsync -a --exclude .git --exclude __pycache__ /repo/ %s/" % tree)
        meta["repo_head"] = sh("git -C /repo rev-parse --short HEAD")[1].strip()
        rc0, out0 = sh("/venv/bin/python %s" % demo, cwd=tree, env={"CSEP_PATH": tree, "PYTHONPATH": tree, "PYTHONDONTWRITEBYTECODE": "1",
                                                                       "MPLBACKEND": "Agg", "PYTHONWARNINGS": "ignore"})
        meta["demo_unchanged"] = {"exit": rc0, "tail": out0.strip()[-300:]}
        rc, out = sh("patch -p1 < %s" % patch, cwd=tree)
        meta["patch_applies"] = rc == 0
        if rc != 0:
            meta["patch_output"] = out[-500:]
        rc1, out1 = sh("/venv/bin/python %s" % demo, cwd=tree, env={"CSEP_PATH": tree, "PYTHONPATH": tree, "PYTHONDONTWRITEBYTECODE": "1",
                                                                       "MPLBACKEND": "Agg", "PYTHONWARNINGS": "ignore"})
        meta["demo_patched"] = {"exit": rc1, "tail": out1.strip()[-500:]}
        passed, line = run_suite(tree)
        meta["suite_patched"] = {"summary": line, "stable_still_passing": len(STABLE & passed), "stable_lost": sorted(STABLE - passed)}
        meta["confirmed"] = bool(rc0 == 0 and meta["patch_applies"] and rc1 != 0 and not (STABLE - passed))
        meta["checks"] = {}
        for c in checks:
            t0 = time.time()
            rc, out = sh("./check %s %s" % (c, tier), cwd=V, env={"VERIF_REPO": tree})
            lines = [l[:260] for l in out.splitlines() if re.match(r"(VIOLATION|INCONCLUSIVE|KNOWN-FINDING|C\d\d )", l)]
            meta["checks"]["%s %s" % (c, tier)] = {"exit": rc, "detected": rc == 1 and "VIOLATION property=" in out, "wall_s": round(time.time() - t0, 1),
                                                     "first_lines": lines[:3], "clauses": sorted(set(re.findall(r"clause=(.*?) tags=", out)))[:8]}
        meta["detected_by"] = [k for k, v in meta["checks"].items() if v["detected"]]
    finally:
        shutil.rmtree(tree, ignore_errors=True)
    if "needs" in opt:
        meta["needs_to_manifest"] = opt["needs"]
    os.makedirs(dst, exist_ok=True)
    old = {}
    if os.path.exists(os.path.join(dst, "meta.json")):
        old = json.load(open(os.path.join(dst, "meta.json")))
        for k in ("needs_to_manifest", "mechanism"):
            if k in old and k not in meta:
                meta[k] = old[k]
    shutil.copy(patch, os.path.join(dst, "patch.diff"))
    shutil.copy(demo, os.path.join(dst, "demo.py"))
    if os.path.exists(os.path.join(src, "NOTES.md")):
        shutil.copy(os.path.join(src, "NOTES.md"), os.path.join(dst, "NOTES.md"))
    json.dump(meta, open(os.path.join(dst, "meta.json"), "w"), indent=1)
    print(json.dumps({k: meta[k] for k in ("id", "confirmed", "demo_unchanged", "demo_patched", "suite_patched", "detected_by")}, indent=1)[:1500])
    for k, v in meta["checks"].items():
        print(k, "exit", v["exit"], v["clauses"][:4], v["first_lines"][:1])


if __name__ == "__main__":
    main()
