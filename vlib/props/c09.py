"""C09 - empirical 'at least' / 'at most' probabilities: exact with ties and out-of-range values.

Deciding monitors: post-conditions on the real stats.greater_equal_ecdf / less_equal_ecdf (rebound in
calc and catalog_evaluations), get_quantiles and binned_ecdf; oracle = integer counting, k/n compared
as exact floats.
"""
import itertools

import numpy

from .. import monitor
from ..core import digest

META = {
    "title": "Empirical quantiles exact with ties / out of range",
    "level": "exploration",
    "rule": ("exhaustive sub-space: every multiset of size 1..7 over a 6-letter alphabet, mapped to 10 value alphabets "
             "(ints, unsigned ints in uint8/32/64 storage, 0.1*k reals, negatives, mixed magnitude), in sorted/reversed/shuffled order, queried at the 6 letters, 5 "
             "mid-gaps, below-min and above-max (13 values), through greater_equal_ecdf, less_equal_ecdf, get_quantiles and "
             "binned_ecdf; plus random samples (10^2..10^5, heavy ties, int/float, list/array, cdf= precomputed). A query is "
             "non-trivial when v ties a value occurring >= 2 times, or v is outside the sample range, or strictly between two "
             "sample values; distinct = (alphabet, multiset, order, v)."),
    "assumptions": ["integer counting with numpy comparisons is the reference", "samples are finite (no NaN): the property's domain"],
    "deciding": ["stats.greater_equal_ecdf", "stats.less_equal_ecdf"],
    "exhaustive_tiers": {"quick": {"multisets size<=7 over 6 letters": 1715, "value alphabets": 10, "orders": 3, "queries": "13 (+3 integer-typed queries for the real alphabets)"},
                         "thorough": {"multisets size<=7 over 6 letters": 1715, "value alphabets": 10, "orders": 3, "queries": "13 (+3 integer-typed queries for the real alphabets)"}},
}

META["added"] = 'Added: an eighth alphabet stored in single precision with double-precision queries closer to a sample value than the float32 spacing (counted exactly in double precision), queries of -inf / +inf (only NaN is outside the domain). unsigned and narrow integer dtypes, a preallocated sample buffer queried, refilled in place and queried again, non-numeric results scored as violations (not monitor errors). int64 values beyond 2**53 with integer queries. integer-typed queries on real-valued samples. ecdf() results edited in place; infinite sample values.'
MANIFEST = {
    "technique": "runtime post-conditions on the real ecdf functions (all call sites) vs integer counting; exhaustive small multisets + random heavy-tie samples",
    "level_text": "All 1715 multisets of size<=7 over 6 letters x 10 value alphabets x 3 orders x 13 query positions are enumerated completely (exhaustive for that sub-space) through the real functions under an exact counting oracle, plus 10^3 (quick) / 10^5 (thorough) random large samples; sum and monotonicity identities checked per sample.",
    "level_note": "Trusted: numpy comparison/counting. Infinite domain of real-valued samples is sampled beyond the exhaustive sub-space.",
}

WATCHDOG_S = {"quick": 600, "thorough": 3600}


def shards(tier):
    return 4 if tier == "quick" else 16


ALPHABETS = {
    "int": [0, 1, 2, 3, 4, 5],
    "real": [0.0, 0.1, 0.2, 0.30000000000000004, 0.4, 0.5],
    "neg": [-5.5, -4.0, -2.5, -1.0, -0.5, -0.0],
    "mixed": [-1e9, -1e-9, 0.0, 1e-9, 1.0, 1e9],
    "uint": [0, 1, 2, 3, 4, 5],          # stored in unsigned dtypes (event counts often are)
    # integers beyond 2**53: neighbouring values are closer than the float64 spacing there, so any detour through floats merges them
    # infinite values are ordinary members of a sample (a pseudo-likelihood is -inf when an event lies in a zero-rate cell); only NaN is excluded
    "inf": [float("-inf"), -12.5, -7.0, -3.25, 0.0, float("inf")],
    "bigint": [2 ** 53, 2 ** 53 + 1, 2 ** 53 + 3, 2 ** 53 + 4, 2 ** 53 + 6, 2 ** 53 + 7],
    # a single-precision sample (values exact in float32); double-precision queries then also fall within one float32 spacing of a sample value
    "real32": [-2.5, 0.0, 0.125, 1.5, 2.25, 3.125],
    # signed integers on both sides of zero in integer storage: the mid-gap queries are negative and positive non-integers (v = -2.5 lies
    # between -3 and -2: floor and truncation differ there)
    "negint": [-7, -4, -3, -2, 1, 2],
    # neighbouring whole numbers at the top of the range of catalog sizes: 1e5 +- 1 differ by 1e-5 of their value
    "size1e5": [99998, 99999, 100000, 100001, 100002, 100004],
}
BIG_GAPS = [2 ** 53 + 2, 2 ** 53 + 5, 2 ** 53 + 2, 2 ** 53 + 5, 2 ** 53 + 2]
DTYPES = {"inf": ["float64"], "bigint": ["int64"], "int": ["int64", "int32"], "uint": ["uint64", "uint8", "uint32"], "real": ["float64", "float32x"], "real32": ["float32"], "neg": ["float64"], "mixed": ["float64"], "negint": ["int64", "int32", "int8"], "size1e5": ["int64", "float64", "int32"]}


def _stats():
    import csep.utils.stats as stats
    return stats


def _ref(x, v):
    x = numpy.asarray(x)
    n = x.shape[0]
    if x.dtype.kind == "f" and x.dtype.itemsize < 8:
        # numpy would round a Python float to the sample's precision before comparing; in double precision every float32 value is exact
        x = x.astype(numpy.float64)
        if isinstance(v, float):
            v = numpy.float64(v)
    return int(numpy.sum(x >= v)) / float(n), int(numpy.sum(x <= v)) / float(n), int(numpy.sum(x == v))


def _valid_sample(x):
    try:
        a = numpy.asarray(x)
        if a.ndim != 1 or a.shape[0] == 0 or a.dtype.kind not in "fiu":
            return False
        return not bool(numpy.any(numpy.isnan(a.astype(float))))
    except Exception:  # noqa
        return False


def _case(fn, x, v, cdf):
    return {"exec": "query", "args": {"fn": fn, "x": numpy.asarray(x)[:2000], "v": v, "precomputed": bool(cdf),
                                      "xdtype": str(numpy.asarray(x).dtype)}}


def install(ctx):
    stats = _stats()
    import csep.utils.calc  # noqa
    import csep.core.catalog_evaluations  # noqa

    def mk(which):
        def post(ctx, args, kwargs, result, exc, caller):
            a = dict(zip(("x", "val", "cdf"), args))
            a.update(kwargs)
            x, v, cdf = a["x"], a["val"], a.get("cdf", ())
            if not _valid_sample(x) or not numpy.isscalar(v) and numpy.ndim(v) != 0 or numpy.isnan(float(v)):
                ctx.add("ecdf_out_of_domain_calls")
                return
            if cdf:
                # a precomputed cdf must be the ecdf of x for the call to be in-domain
                ex = numpy.sort(numpy.asarray(x))
                if not (numpy.array_equal(ex, cdf[0])):
                    ctx.add("ecdf_out_of_domain_calls")
                    return
            ge, le, eq = _ref(x, v)
            want = ge if which == "ge" else le
            if exc is not None:
                ctx.violate(which + "-raised", _case(which, x, v, cdf), observed=repr(exc), expected=want, tags={"caller": caller})
                return
            if result is None or float(result) != want:
                xs = numpy.asarray(x)
                ctx.violate(which + "-wrong", _case(which, x, v, cdf), observed=result, expected=want,
                            tags={"fn": which, "tie": bool(eq > 0), "multi_tie": bool(eq > 1), "below": bool(v < xs.min()),
                                  "above": bool(v > xs.max()), "caller": caller})
        return post

    monitor.wrap(ctx, stats, "greater_equal_ecdf", mk("ge"), mon_name="stats.greater_equal_ecdf")
    monitor.wrap(ctx, stats, "less_equal_ecdf", mk("le"), mon_name="stats.less_equal_ecdf")

    def post_gq(ctx, args, kwargs, result, exc, caller):
        a = dict(zip(("sim_counts", "obs_count"), args))
        a.update(kwargs)
        x, v = a["sim_counts"], a["obs_count"]
        if not _valid_sample(x) or numpy.ndim(v) != 0 or numpy.isnan(float(v)):
            ctx.add("get_quantiles_out_of_domain_calls")
            return
        ge, le, eq = _ref(x, v)
        case = _case("gq", x, v, False)
        if exc is not None:
            ctx.violate("get_quantiles-raised", case, observed=repr(exc), tags={"caller": caller})
        elif result is None or len(result) != 2 or any(r is None or isinstance(r, str) for r in result) or float(result[0]) != ge or float(result[1]) != le:
            ctx.violate("get_quantiles-wrong", case, observed=result, expected=(ge, le), tags={"fn": "gq", "tie": bool(eq > 0),
                                                                                               "caller": caller})
    monitor.wrap(ctx, stats, "get_quantiles", post_gq, mon_name="stats.get_quantiles")

    def post_be(ctx, args, kwargs, result, exc, caller):
        a = dict(zip(("x", "vals"), args))
        a.update(kwargs)
        x, vals = a["x"], a["vals"]
        if len(x) == 0:
            if result is not None and exc is None:
                ctx.violate("binned_ecdf-empty-not-none", {"exec": "binned", "args": {"x": [], "vals": numpy.asarray(vals)}},
                            observed=repr(result), expected=None)
            return
        if not _valid_sample(x):
            return
        vals_a = numpy.asarray(vals)                     # in their own dtype: integer queries beyond 2**53 must not pass through floats
        xs = numpy.asarray(x)
        ref = numpy.array([_ref(xs, v)[1] for v in vals_a.tolist()])
        case = {"exec": "binned", "args": {"x": xs[:2000], "vals": vals_a}}
        if exc is not None:
            ctx.violate("binned_ecdf-raised", case, observed=repr(exc), tags={"caller": caller})
        elif not numpy.array_equal(numpy.asarray(result[1], dtype=float), ref):
            ctx.violate("binned_ecdf-wrong", case, observed=result[1], expected=ref, tags={"fn": "binned", "caller": caller})
    monitor.wrap(ctx, stats, "binned_ecdf", post_be, mon_name="stats.binned_ecdf")


def ex_query(ctx, fn, x, v, precomputed=False, xdtype="float64", aslist=False):
    stats = _stats()
    xa = numpy.asarray(x, dtype=numpy.dtype(xdtype))
    xin = xa.tolist() if aslist else xa
    kw = {}
    if precomputed:
        kw["cdf"] = stats.ecdf(xa)
    if fn == "ge":
        ctx.call(stats.greater_equal_ecdf, xin, v, **kw)
    elif fn == "le":
        ctx.call(stats.less_equal_ecdf, xin, v, **kw)
    else:
        ctx.call(stats.get_quantiles, xin, v)


def ex_binned(ctx, x, vals):
    ctx.call(_stats().binned_ecdf, numpy.asarray(x), numpy.asarray(vals))


EXECUTORS = {"query": ex_query, "binned": ex_binned}


def sample_identities(ctx, x, queries, label):
    """Sum and monotonicity identities over the library's own answers."""
    stats = _stats()
    xs = numpy.asarray(x)
    qs = sorted(queries)
    with monitor.suspended():
        ge = [stats.greater_equal_ecdf(xs, q) for q in qs]
        le = [stats.less_equal_ecdf(xs, q) for q in qs]
    ctx.mon("identity:sum+monotone", 1)
    n = float(xs.shape[0])
    for i, q in enumerate(qs):
        eq = float(_ref(xs, q)[2])
        if abs((ge[i] + le[i]) - (1.0 + eq / n)) > 1e-12:
            ctx.violate("sum-identity", {"exec": "query", "args": {"fn": "gq", "x": xs[:2000], "v": q, "xdtype": str(xs.dtype)}},
                        observed=(ge[i], le[i]), expected=1.0 + eq / n, tags={"fn": "identity"})
        if i and (ge[i] > ge[i - 1] or le[i] < le[i - 1]):
            ctx.violate("monotone", {"exec": "query", "args": {"fn": "gq", "x": xs[:2000], "v": q, "xdtype": str(xs.dtype)}},
                        observed={"ge": ge[i - 1:i + 1], "le": le[i - 1:i + 1]}, tags={"fn": "identity"})


def run(ctx):
    install(ctx)
    stats = _stats()
    rng = ctx.rng("c09")
    # ---- exhaustive sub-space
    ci = 0
    for size in range(1, 8):
        for ms in itertools.combinations_with_replacement(range(6), size):
            ci += 1
            if not ctx.mine(ci):
                continue
            counts = numpy.bincount(ms, minlength=6)
            for aname, alpha in ALPHABETS.items():
                vals = [alpha[i] for i in ms]
                queries = list(alpha) + [(alpha[i] + alpha[i + 1]) / 2.0 for i in range(5)] + [alpha[0] - 1.0, alpha[-1] + 1.0]
                if aname == "mixed":
                    queries[-2:] = [-2e9, 2e9]
                if aname == "real32":
                    # double-precision neighbours of the extremes and of one inner value: closer to them than the float32 spacing, yet different
                    queries = queries + [float(numpy.nextafter(alpha[-1], 9.0)), float(numpy.nextafter(alpha[0], -9.0)),
                                         float(numpy.nextafter(alpha[3], 9.0)), float(numpy.nextafter(alpha[3], -9.0)), alpha[-1] + 1e-9, alpha[0] - 1e-9]
                if aname == "bigint":
                    queries = list(alpha) + BIG_GAPS + [alpha[0] - 1, alpha[-1] + 1]          # integer queries only
                if aname in ("real", "neg", "mixed"):
                    # integer-TYPED queries against real-valued samples (python int and numpy integer): sample values lie strictly between v-1 and v
                    iq = {"real": [0, 1], "neg": [-5, -4, -2, -1, 0], "mixed": [-1, 0, 1]}[aname]
                    queries = queries + iq[: 2 + ci % 2] + [numpy.int64(iq[-1 - ci % 2])]
                orders = [vals, vals[::-1], [vals[i] for i in rng.permutation(size)]]
                for oi, xv in enumerate(orders):
                    dts = DTYPES[aname]
                    dt = dts[(ci + oi) % len(dts)]
                    if dt == "float32x":
                        dt = "float64"          # float32 samples would change the values themselves; kept as float64
                    xa = numpy.asarray(xv, dtype=dt)
                    for qi, q in enumerate(queries):
                        qq = q if (aname not in ("int", "uint", "bigint", "negint", "size1e5") or qi >= 6) else int(q)
                        ctx.call(stats.greater_equal_ecdf, xa, qq)
                        ctx.call(stats.less_equal_ecdf, xa, qq)
                        ctx.call(stats.get_quantiles, xa if oi else xa.tolist(), qq)
                        ctx.count(3)
                        # non-trivial rule
                        if qi < 6:
                            nt = counts[qi] >= 2 or (counts[qi] == 0)
                        else:
                            nt = True
                        if nt:
                            ctx.nt(digest((aname, ms, oi, qi)))
                    if oi == 1 and ci % 5 == 0:
                        # history: the caller takes the arrays returned by ecdf() and edits them in place (percent instead of fractions) - every
                        # later answer, also for other samples of the same length, is judged by the contracts as usual
                        with monitor.suspended():
                            try:
                                exs, eys = stats.ecdf(xa)
                                eys *= 100.0
                                exs += 1
                            except (ValueError, TypeError):
                                pass
                        ctx.add("ecdf_results_edited_in_place")
                    if oi == 0:
                        # history: one preallocated sample buffer is queried, refilled in place with another multiset, and queried again
                        # (the way a simulation loop reuses its array); the contracts judge every answer against the buffer's current content
                        buf = numpy.empty(size, dtype=xa.dtype)
                        for fill in (xv, [alpha[(ms[i] + 1 + i % 2) % 6] for i in range(size)], xv[::-1]):
                            buf[:] = fill
                            for qq in (queries[0], queries[6], queries[3]):
                                qq = qq if aname not in ("int", "uint", "bigint") else (int(qq) if (isinstance(qq, int) or float(qq) == int(qq)) else qq)
                                ctx.call(stats.greater_equal_ecdf, buf, qq)
                                ctx.call(stats.less_equal_ecdf, buf, qq)
                                ctx.call(stats.get_quantiles, buf, qq)
                            ctx.mon("history:buffer-refilled-in-place", 1)
                        sample_identities(ctx, xa, queries, aname)
                        ctx.call(stats.binned_ecdf, xa, numpy.array(sorted(set(queries))))     # "vals must be monotonically increasing and unique"
                        ctx.count(1)
            if ci % 97 == 0:
                ctx.sample({"multiset_letters": ms, "alphabet": "all 4", "orders": "sorted/reversed/shuffled",
                            "queries": "6 letters + 5 mid-gaps + below + above"})
    ctx.add("exhaustive_multisets_enumerated", sum(1 for s in range(1, 8) for ms in itertools.combinations_with_replacement(range(6), s)
                                                   if True) if ctx.shard == 0 else 0)
    # ---- random large samples with heavy ties
    nrand = (800000 if ctx.tier == "thorough" else 1200) // ctx.nshards
    for j in range(nrand):
        r = ctx.rng("c09rand", j)
        n = int(10 ** r.uniform(2, 5 if j % 50 == 0 else 3.3))
        kind = j % 4
        if kind == 0:
            x = r.integers(0, int(r.integers(2, 30)), n).astype(["int64", "uint8", "uint64", "int16", "uint32"][j % 5])
        elif kind == 1:
            x = numpy.round(r.normal(0, 3, n), int(r.integers(0, 2)))
        elif kind == 2:
            x = r.poisson(r.uniform(0.5, 50), n).astype(float)
        else:
            x = r.choice(r.normal(0, 1e3, int(r.integers(1, 8))), n)
        u = numpy.unique(x).astype(float)          # query values are plain numbers (unsigned sample dtypes must not wrap them)
        qs = [u[0], u[-1], u[len(u) // 2], u[0] - 1, u[-1] + 1, float(r.choice(u)) + 0.25 * (1 if u.size == 1 else float(numpy.min(numpy.diff(u)))),
              float(r.uniform(u[0] - 1, u[-1] + 1))]
        for qi, q in enumerate(qs):
            fn = ("ge", "le", "gq")[(j + qi) % 3]
            ex_query(ctx, fn, x, q.item() if hasattr(q, "item") else q, precomputed=(qi % 2 == 1 and fn != "gq"),
                     xdtype=str(x.dtype), aslist=(j % 7 == 0 and n < 2000))
            ctx.count(1)
            ctx.nt(digest(("rand", ctx.seed, ctx.shard, j, qi)))
        if j % 5 == 0:
            # history: ONE precomputed ecdf(x) handed to a series of queries of both kinds (what a caller scanning thresholds does); every
            # answer is judged by the contracts, and the caller's arrays must come back unchanged
            stats_ = _stats()
            with monitor.suspended():
                shared = stats_.ecdf(numpy.asarray(x))
            snap = tuple(numpy.array(a, copy=True) for a in shared)
            for q in qs:
                qv = q.item() if hasattr(q, "item") else q
                ctx.call(stats_.greater_equal_ecdf, x, qv, cdf=shared)
                ctx.call(stats_.less_equal_ecdf, x, qv, cdf=shared)
            ctx.mon("history:shared-precomputed-cdf", 1)
            if not all(numpy.array_equal(a, b) for a, b in zip(shared, snap)):
                ctx.violate("a query changed the caller's precomputed cdf arrays", {"exec": "query", "args": {"fn": "ge", "x": numpy.asarray(x)[:2000], "v": float(qs[0]), "precomputed": True, "xdtype": str(x.dtype)}},
                            observed=numpy.asarray(shared[1])[:6], expected=snap[1][:6], tags={"fn": "shared-cdf", "clause": "argument-mutated"})
        if j % 10 == 0:
            sample_identities(ctx, x, [float(q) for q in qs], "rand")
            ex_binned(ctx, x, numpy.linspace(float(u[0]) - 1, float(u[-1]) + 1, 25))
        if j == 0 and ctx.tier == "thorough" and ctx.shard == 0:
            from ..suite import run_repo_suite
            run_repo_suite(ctx, ["test_stats.py", "test_magnitude_tests.py", "test_evaluations.py", "test_calc.py"])
        if j % 400 == 0:
            ctx.sample({"random_sample_n": n, "kind": ["int ties", "rounded normal", "poisson", "few distinct reals"][kind],
                        "first_values": x[:8], "queries": qs})
