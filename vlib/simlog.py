"""Boundary logs for the simulation-based tests: global numpy RNG recorder / hostile substitute and
recorders around the three module-level _simulate_catalog functions.

The evaluation modules call numpy.random.<fn> and _simulate_catalog through module attributes at
call time, so rebinding the attribute puts the recorder between caller and callee without touching
the repository. Every record is taken at the boundary: arguments before the call, a *copy* of the
returned array after it (the Poisson simulator reuses one buffer).
"""
import contextlib

import numpy

_REAL = {}
for _n in ("seed", "rand", "uniform", "poisson", "choice", "random", "random_sample"):
    _REAL[_n] = getattr(numpy.random, _n)


class RngLog:
    """Recording pass-through (or hostile substitute) for the global numpy RNG functions."""

    def __init__(self, hostile=None, budget=2_000_000):
        self.events = []          # (fn, args, result)
        self.hostile = hostile    # callable(fn, args, kwargs, real) -> value  or None
        self.draws = 0
        self.budget = budget
        self.exhausted = False

    def _rec(self, fn):
        real = _REAL[fn]

        def f(*a, **k):
            if self.hostile is not None:
                r = self.hostile(fn, a, k, real)
            else:
                r = real(*a, **k)
            self.draws += int(numpy.size(r)) if r is not None else 0
            if self.draws > self.budget:
                self.exhausted = True
                raise DrawBudgetExceeded("draw budget %d exceeded" % self.budget)
            if fn == "choice":
                self.events.append((fn, {"a": numpy.array(a[0], copy=True) if a else None, "size": k.get("size"),
                                         "p": None if k.get("p") is None else numpy.array(k.get("p"), copy=True)},
                                    numpy.array(r, copy=True)))
            else:
                self.events.append((fn, (a, k), numpy.array(r, copy=True) if r is not None else None))
            return r
        return f

    def __enter__(self):
        for fn in _REAL:
            setattr(numpy.random, fn, self._rec(fn))
        return self

    def __exit__(self, *exc):
        for fn, real in _REAL.items():
            setattr(numpy.random, fn, real)
        return False

    def of(self, fn):
        return [e for e in self.events if e[0] == fn]


class DrawBudgetExceeded(RuntimeError):
    pass


class SimLog:
    """Recorder around module._simulate_catalog. Records (kind, n, weights, random_numbers|None, rng-event range, result copy | exc)."""

    def __init__(self, module, kind, rng_log=None):
        self.module = module
        self.kind = kind
        self.rng = rng_log
        self.calls = []
        self._orig = None

    def __enter__(self):
        self._orig = self.module._simulate_catalog
        orig = self._orig
        log = self

        def rec(*a, **k):
            n = a[0] if a else k.get("num_events", k.get("sim_cells"))
            w = a[1] if len(a) > 1 else k.get("sampling_weights")
            rn = k.get("random_numbers")
            if rn is None:
                npos = 3 if log.kind != "brier" else 2
                if len(a) > npos:
                    rn = a[npos]
            e0 = len(log.rng.events) if log.rng is not None else 0
            entry = {"n": int(n), "weights": w, "injected": None if rn is None else numpy.array(rn, copy=True), "e0": e0}
            try:
                r = orig(*a, **k)
                entry["result"] = numpy.array(r, copy=True)
                return r
            except BaseException as ex:  # noqa
                entry["exc"] = ex
                raise
            finally:
                entry["e1"] = len(log.rng.events) if log.rng is not None else 0
                log.calls.append(entry)
        self.module._simulate_catalog = rec
        return self

    def __exit__(self, *exc):
        self.module._simulate_catalog = self._orig
        return False

    def draws_of(self, entry):
        """Uniform draws consumed by one simulator call, in order."""
        if entry["injected"] is not None:
            return numpy.asarray(entry["injected"], dtype=float).ravel()
        out = []
        for fn, args, res in self.rng.events[entry["e0"]:entry["e1"]]:
            if fn in ("rand", "uniform", "random", "random_sample") and res is not None:
                out.append(numpy.asarray(res, dtype=float).ravel())
        return numpy.concatenate(out) if out else numpy.zeros(0)


def weights_data(w):
    """Plain ndarray view of the sampling weights the simulator actually searches (masked arrays: .data)."""
    if isinstance(w, numpy.ma.MaskedArray):
        return numpy.asarray(w.data, dtype=float), numpy.ma.getmaskarray(w)
    return numpy.asarray(w, dtype=float), None


def place(W, u):
    """Reference inverse-CDF placement by exact comparisons: bin k with W[k-1] <= u < W[k]  ==  #{k : W[k] <= u}."""
    W = numpy.asarray(W, dtype=float)
    u = numpy.asarray(u, dtype=float)
    # monotone part not assumed: count by brute force when small, searchsorted on sorted W otherwise (checked separately)
    if W.size * u.size <= 4_000_000:
        return (W[None, :] <= u[:, None]).sum(axis=1)
    return numpy.searchsorted(W, u, side="right")


@contextlib.contextmanager
def scrambled_global_rng(tag):
    """Leave the global RNG in an arbitrary, different state (exposes code that forgets to seed)."""
    st = numpy.random.get_state()
    numpy.random.seed((hash(tag) % (2 ** 31)) + 12345)
    numpy.random.rand(int(hash(tag) % 7) + 1)
    try:
        yield
    finally:
        numpy.random.set_state(st)
