"""Reference model for 1-D binning (C02) and the contract installed on csep.utils.calc.bin1d_vec.

Oracle, for bins increasing and equally spaced, p of any real dtype:
   true_k(p) = #{k : bins[k] <= p} - 1      (exact float comparisons; no arithmetic)
   H1  p >= bins[k]                 =>  idx >= k            (hard, no tolerance)
   H2  p <  bins[k] - B(p, k)       =>  idx <  k            (hard)
   in the band [bins[k]-B, bins[k]) either neighbour is accepted.
   open mode : idx = min(., n-1); closed mode: values at/above bins[-1] may be n-1 (the bin the last
   edge opens, width h) and must be -1 from bins[-1]+h+B on; once -1 above, always -1.
Band B(p,k) = max(8*(k+2), FLOOR) * (tol_p + eps_a0*|a0|),  tol_p = tol or eps(dtype p)*|p|,
FLOOR = 4096 for float64 data (the property allows "relative distance of order 1e-12" = 4500 eps),
64 otherwise.  The band is only ever *wider* than the tolerance the property grants at k small;
see DESIGN section 2 for calibration.
"""
from decimal import Decimal
from fractions import Fraction

import numpy

EPS64 = numpy.finfo(numpy.float64).eps


def ulp_shift(x, j):
    """Move float64 array x by j (int array/scalar) representable steps (ordered-int trick)."""
    x = numpy.ascontiguousarray(x, dtype=numpy.float64)
    i = x.view(numpy.int64).copy()
    neg = i < 0
    i[neg] = numpy.iinfo(numpy.int64).min - i[neg]
    i = i + j
    neg = i < 0
    i[neg] = numpy.iinfo(numpy.int64).min - i[neg]
    return i.view(numpy.float64)


def in_domain(bins):
    """Property domain: increasing, equally spaced (within 4 ulp of the largest edge)."""
    b = numpy.asarray(bins)
    if b.ndim != 1 or b.size == 0 or not numpy.issubdtype(b.dtype, numpy.number):
        return False
    if b.size == 1:
        return bool(numpy.isfinite(b[0]))
    b = b.astype(numpy.float64)
    if not numpy.all(numpy.isfinite(b)):
        return False
    d = numpy.diff(b)
    if not numpy.all(d > 0):
        return False
    tol = 8 * EPS64 * max(abs(b[0]), abs(b[-1]), 1e-300)
    return bool(numpy.all(numpy.abs(d - d[0]) <= tol))


def band(p64, k, a0, eps_p, tol):
    tol_p = (numpy.abs(p64) * eps_p) if not tol else float(tol)
    floor = 4096.0 if eps_p <= EPS64 * 1.5 else 64.0
    if eps_p == 0:      # integer data: only the a0 term matters
        floor = 4096.0
    return numpy.maximum(8.0 * (k + 2.0), floor) * (tol_p + EPS64 * abs(a0))


def check(p, bins, tol, right_continuous, idx):
    """Return list of (clause, positions array) for probes violating the model. Vectorised."""
    bins = numpy.asarray(bins)
    p_arr = numpy.asarray(p)
    if p_arr.dtype.kind not in "fiu" or bins.dtype.kind not in "fiu":
        return []
    pf = p_arr.astype(numpy.float64).ravel()
    idx = numpy.asarray(idx).ravel()
    if idx.shape != pf.shape:
        return [("shape", numpy.arange(1))]
    # every float64 value except NaN has a place in the order of the edges: -inf lies below the first edge, +inf at or above the last
    finite = ~numpy.isnan(pf)
    b = bins.astype(numpy.float64)
    n = b.size
    a0 = float(b[0])
    eps_p = float(numpy.finfo(p_arr.dtype).eps) if p_arr.dtype.kind == "f" else 0.0
    single = (n == 1)
    rc = bool(right_continuous) or single
    h = float(b[1] - b[0]) if n > 1 else 1.0
    tk = numpy.searchsorted(b, pf, side="right") - 1          # exact comparisons
    out = []
    # --- H1: never below the true bin
    lo = numpy.minimum(tk, n - 1)
    if rc:
        bad = finite & (idx < lo)
        if bad.any():
            out.append(("at-or-above-edge-binned-below", numpy.nonzero(bad)[0]))
    else:
        # closed: for tk <= n-2 the bin is decided; for tk == n-1 result may be n-1 or -1
        bad = finite & (tk <= n - 2) & (idx < tk)
        if bad.any():
            out.append(("at-or-above-edge-binned-below", numpy.nonzero(bad)[0]))
        top = finite & (tk == n - 1)
        badtop = top & ~((idx == n - 1) | (idx == -1))
        if badtop.any():
            out.append(("closed-top-not-last-or-out", numpy.nonzero(badtop)[0]))
        # within the last bin [b[-1], b[-1]+h-B) the value must be n-1
        inlast = top & (pf < b[-1] + h - band(pf, n, a0, eps_p, tol) - abs(h) * 8 * EPS64)
        bad = inlast & (idx != n - 1)
        if bad.any():
            out.append(("closed-last-bin-lost", numpy.nonzero(bad)[0]))
        far = top & (pf >= b[-1] + h + band(pf, n, a0, eps_p, tol) + abs(h) * 8 * EPS64)
        bad = far & (idx != -1)
        if bad.any():
            out.append(("closed-above-range-not-rejected", numpy.nonzero(bad)[0]))
    # --- H2: above the true bin only inside the band below the next edge
    up = finite & (idx > lo) if rc else finite & (tk <= n - 2) & (idx > tk)
    if up.any():
        pos = numpy.nonzero(up)[0]
        k1 = tk[pos] + 1                                    # edge that would have to be reached
        ok = (idx[pos] == k1) & (k1 <= n - 1)
        k1c = numpy.clip(k1, 0, n - 1)
        dist = b[k1c] - pf[pos]
        ok &= numpy.isfinite(pf[pos]) & (dist <= band(pf[pos], k1c.astype(float), a0, eps_p, tol))
        if (~ok).any():
            out.append(("below-edge-binned-above", pos[~ok]))
    # --- below the first edge must be -1 (covered by H2 with tk=-1: idx must be -1 or 0-in-band)
    neg = finite & (idx < -1)
    if neg.any():
        out.append(("index-below-minus-one", numpy.nonzero(neg)[0]))
    toobig = finite & (idx > n - 1)
    if toobig.any():
        out.append(("index-beyond-last", numpy.nonzero(toobig)[0]))
    # --- monotone (outside a common band)
    if pf.size > 1:
        order = numpy.argsort(pf, kind="stable")
        ps, is_ = pf[order], idx[order].astype(numpy.int64)
        if not rc:
            is_ = numpy.where((is_ == -1) & (ps >= b[-1]), n, is_)
        fin = numpy.isfinite(ps)
        dec = numpy.nonzero((is_[1:] < is_[:-1]) & fin[1:] & fin[:-1])[0]
        if dec.size:
            # allowed only if the earlier point was lifted inside the band of edge is_[i]
            i = dec
            ke = numpy.clip(is_[i], 0, n - 1)
            lifted = (b[ke] > ps[i]) & (b[ke] - ps[i] <= band(ps[i], ke.astype(float), a0, eps_p, tol)) \
                     & (b[ke] > ps[i + 1])
            if not rc:
                lifted |= (is_[i] == n)  # top boundary of closed mode: band handled above
            if (~lifted).any():
                out.append(("non-monotone", order[i[~lifted] + 1]))
    return out


def nontrivial_mask(pf, bins):
    """Within 4096 ulps of an edge, equal to an edge, below first or above last edge."""
    b = numpy.asarray(bins, dtype=numpy.float64)
    pf = numpy.asarray(pf, dtype=numpy.float64)
    j = numpy.clip(numpy.searchsorted(b, pf), 0, b.size - 1)
    j0 = numpy.clip(j - 1, 0, b.size - 1)
    near = numpy.minimum(numpy.abs(pf - b[j]), numpy.abs(pf - b[j0]))
    return (near <= 4096 * numpy.spacing(numpy.maximum(numpy.abs(pf), 1e-300))) | (pf < b[0]) | (pf > b[-1])


def install(ctx, calc_module, prefix="C02"):
    """Install the contract on the real bin1d_vec (rebound in every importing csep module)."""
    from .. import monitor

    def post(ctx, args, kwargs, result, exc, caller):
        names = ("p", "bins", "tol", "right_continuous")
        a = dict(zip(names, args))
        a.update(kwargs)
        p, bins = a.get("p"), a.get("bins")
        tol, rc = a.get("tol"), a.get("right_continuous", False)
        try:
            dom = in_domain(bins)
        except Exception:  # noqa
            dom = False
        if not dom:
            ctx.add("bin1d_out_of_domain_calls")
            return
        ctx.add("bin1d_in_domain_calls")
        parr = numpy.asarray(p)
        if parr.dtype.kind not in "fiu":
            ctx.add("bin1d_nonnumeric_calls")
            return
        if exc is not None:
            ctx.violate(prefix + ":bin1d-raised", {"exec": "bin1d_direct", "args": {
                "p": parr.ravel()[:50], "bins": _compact_bins(bins), "tol": tol, "rc": bool(rc),
                "pdtype": str(parr.dtype)}}, observed=repr(exc), tags={"caller": caller, "clause": "raised"})
            return
        ctx.add("bin1d_values_checked", int(parr.size))
        bad = check(p, bins, tol, rc, result)
        for clause, pos in bad:
            pos = pos[:20]
            pv = parr.ravel()[pos] if parr.size else parr.ravel()
            ctx.violate(prefix + ":" + clause, {"exec": "bin1d_direct", "args": {
                "p": pv, "bins": _compact_bins(bins), "tol": tol, "rc": bool(rc), "pdtype": str(parr.dtype)}},
                observed={"idx": numpy.asarray(result).ravel()[pos]},
                expected={"true_k": (numpy.searchsorted(numpy.asarray(bins, dtype=float), pv.astype(float), side="right") - 1)},
                tags={"caller": caller, "clause": clause, "mode": "open" if rc or numpy.size(bins) == 1 else "closed",
                      "single_edge": bool(numpy.size(bins) == 1)})

    return monitor.wrap(ctx, calc_module, "bin1d_vec", post, mon_name="calc.bin1d_vec")


def _compact_bins(bins):
    return numpy.asarray(bins).tolist()


# ------------------------------------------------------------------------------------------
# generator oracle


def dec(x):
    """Decimal the user wrote: shortest repr of the float."""
    return Decimal(repr(float(x)))


def exact_grid(start, end, step):
    """Nearest floats of start + k*step for k = 0..round((end-start)/step) (Decimal arithmetic)."""
    s, e, h = dec(start), dec(end), dec(step)
    n = int(((e - s) / h).to_integral_value(rounding="ROUND_HALF_EVEN"))
    # end included iff on grid (within half a step, as documented by `end + d/2`)
    vals = [float(s + k * h) for k in range(n + 1) if s + k * h <= e + h / 2]
    return numpy.array(vals, dtype=numpy.float64)


def decimal_digits(x):
    r = repr(float(x))
    if "e" in r or "E" in r:
        return 99
    return len(r.split(".")[1]) if "." in r else 0
