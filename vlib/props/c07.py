"""C07 - number tests report exact inclusive tail probabilities (Poisson, NBD, empirical)."""
import datetime
import math

import os

import numpy
import scipy.special as sp

from .. import fixtures, monitor
from ..core import digest, scratch_dir

UTC = datetime.timezone.utc

META = {
    "title": "Number tests: exact inclusive tails",
    "level": "exploration",
    "rule": ("primitive cases (mean, n_obs[, variance]) on a grid: means log-spaced 1e-6..1e5, n_obs in {0,1,2,floor(mu)+-1, mu+-k*sqrt(mu), "
             "1e5}, NBD variances mean*(1+10^[-9..9]); end-to-end cases through number_test / negative_binomial_number_test / catalog "
             "number_test with scaled forecasts and catalogs of n_obs events; empirical multisets with heavy ties. Non-trivial: "
             "pmf(n_obs) > 1e-6 (inclusive vs exclusive tail differs observably) or ties at n_obs in the empirical sample; distinct = "
             "(law, parameters, n_obs)."),
    "assumptions": ["scipy.special.gammainc/gammaincc/betainc + explicit log-space pmf sums (math.lgamma, math.fsum) are the reference",
                    "absolute tolerance 1e-9 on tail probabilities (the implementation's 1-cdf form has absolute accuracy)"],
    "deciding": ["poisson_evaluations._number_test_ndarray", "binomial_evaluations._nbd_number_test_ndarray", "stats.get_quantiles"],
}
META["added"] = "Added: observed catalogs with events outside the forecast's region, NBD N-test on forecasts that carry a scale factor. re-scaling histories with total reads in between, array-valued scale factors (per cell, per magnitude bin, full table), observed counts above 16384 through the public wrappers, in-place mutation of yielded catalogs before the catalog N-test. forecasts streamed from files with placeholder rows / id gaps, NBD variance ratios 1+1e-9..1e9. catalogs with events outside the forecast's magnitude range, scaled T-test before the N-test, reference total snapshotted before any library call. filtered lazy forecasts after earlier passes, integer-dtype rate tables. the factor in force is tracked by the harness (not read back from the forecast), forecasts scaled to a test date in leap and ordinary years."
MANIFEST = {
    "technique": "runtime post-conditions on the real number-test primitives and public tests vs independent incomplete-gamma/beta and explicit pmf-sum oracles; identity and monotonicity checkers over a parameter grid",
    "level_text": "Each call of the Poisson / NBD / empirical number-test primitives (2e4 quick, 1e6 thorough grid points plus end-to-end runs through the three public tests on generated forecasts and catalogs, including scaled forecasts) is checked against tails computed by incomplete gamma/beta functions and explicit pmf summation; delta1+delta2 = 1+pmf and monotonicity in the mean are checked across the grid.",
    "level_note": "Trusted: scipy.special incomplete gamma/beta, math.lgamma. Tolerance 1e-9 absolute; exclusive-vs-inclusive slips move results by pmf(n_obs) which is > 1e-6 on the non-trivial cases.",
}
WATCHDOG_S = {"quick": 600, "thorough": 3600}
TOL = 1e-9


def shards(tier):
    return 4 if tier == "quick" else 16


# ---------------------------------------------------------------------------------------------
# oracles


def pois_logpmf(k, mu):
    return k * math.log(mu) - mu - math.lgamma(k + 1.0)


def pois_tails(mu, n):
    """(P(N>=n), P(N<=n), pmf(n)) for integer n >= 0."""
    n = int(n)
    ge = 1.0 if n == 0 else float(sp.gammainc(n, mu))
    le = float(sp.gammaincc(n + 1, mu))
    return ge, le, math.exp(pois_logpmf(n, mu))


def pois_tails_sum(mu, n):
    """Explicit pmf summation (independent of incomplete gamma), for moderate sizes."""
    n = int(n)
    le = math.fsum(math.exp(pois_logpmf(k, mu)) for k in range(0, n + 1))
    lt = le - math.exp(pois_logpmf(n, mu))
    return 1.0 - lt, le


def nbd_params(mean, var):
    p = mean / var
    r = mean * mean / (var - mean)
    return r, p


def nbd_logpmf(k, r, p):
    return math.lgamma(k + r) - math.lgamma(k + 1.0) - math.lgamma(r) + r * math.log(p) + k * math.log1p(-p)


def nbd_pmf(k, mean, var):
    """NBD pmf, stable for variance/mean ratios 1+1e-9 .. 1e9: Gamma(k+r)/(k! Gamma(r)) = 1/((k+r) B(r, k+1)) (no difference of huge
    log-gammas), log p = log1p(-q) with q = (var-mean)/var formed without cancellation."""
    q = (var - mean) / var
    r = mean * mean / (var - mean)
    return math.exp(-math.log(k + r) - float(sp.betaln(r, k + 1.0)) + r * math.log1p(-q) + (k * math.log(q) if k else 0.0))


def nbd_tails(mean, var, n):
    r, p = nbd_params(mean, var)
    n = int(n)
    le = float(sp.betainc(r, n + 1.0, p))
    ge = 1.0 if n == 0 else float(sp.betainc(float(n), r, 1.0 - p))
    return ge, le, nbd_pmf(n, mean, var)


def _chk(ctx, clause, case, got, want, tags, tol=TOL):
    try:
        g = float(got)
    except Exception:  # noqa
        g = float("nan")
    if not (abs(g - want) <= tol) or not (0.0 - 1e-15 <= g <= 1.0 + 1e-15):
        ctx.violate(clause, case, observed=got, expected=want, tags=tags)
        return False
    return True


def install(ctx):
    import csep.core.poisson_evaluations as pe
    import csep.core.binomial_evaluations as be
    import csep.core.catalog_evaluations  # noqa
    import csep.utils.stats as stats

    def post_p(ctx, args, kwargs, result, exc, caller):
        a = dict(zip(("fore_cnt", "obs_cnt", "epsilon"), args))
        a.update(kwargs)
        mu, n = float(a["fore_cnt"]), a["obs_cnt"]
        if not (mu > 0 and math.isfinite(mu)) or n != int(n) or n < 0 or a.get("epsilon", 1e-6) != 1e-6:
            ctx.add("poisson_prim_out_of_domain")
            return
        case = {"exec": "pois", "args": {"mu": mu, "n": int(n)}}
        if exc is not None:
            ctx.violate("poisson number test raised", case, observed=repr(exc), tags={"law": "poisson"})
            return
        ge, le, pmf = pois_tails(mu, n)
        tags = {"law": "poisson", "n_zero": int(n) == 0, "pmf_big": pmf > 1e-6}
        _chk(ctx, "delta1 != P(N>=n_obs) [poisson]", case, result[0], ge, dict(tags, which="delta1"))
        _chk(ctx, "delta2 != P(N<=n_obs) [poisson]", case, result[1], le, dict(tags, which="delta2"))
        if mu < 3000 and n < 6000:
            ge2, le2 = pois_tails_sum(mu, n)
            ctx.mon("oracle-crosscheck:pmf-sum", 1)
            if abs(ge2 - ge) > 1e-10 or abs(le2 - le) > 1e-10:
                ctx.inconc("oracles disagree for poisson mu=%r n=%r: %r vs %r" % (mu, n, (ge, le), (ge2, le2)))
    monitor.wrap(ctx, pe, "_number_test_ndarray", post_p, mon_name="poisson_evaluations._number_test_ndarray")

    def post_n(ctx, args, kwargs, result, exc, caller):
        a = dict(zip(("fore_cnt", "obs_cnt", "variance", "epsilon"), args))
        a.update(kwargs)
        mu, n, var = float(a["fore_cnt"]), a["obs_cnt"], float(a["variance"])
        if not (mu > 0 and var > mu and math.isfinite(var)) or n != int(n) or n < 0:
            ctx.add("nbd_prim_out_of_domain")
            return
        case = {"exec": "nbd", "args": {"mu": mu, "n": int(n), "var": var}}
        if exc is not None:
            ctx.violate("NBD number test raised", case, observed=repr(exc), tags={"law": "nbd"})
            return
        ge, le, pmf = nbd_tails(mu, var, n)
        tags = {"law": "nbd", "n_zero": int(n) == 0, "pmf_big": pmf > 1e-6}
        _chk(ctx, "delta1 != P(N>=n_obs) [nbd]", case, result[0], ge, dict(tags, which="delta1"), tol=1e-8)
        _chk(ctx, "delta2 != P(N<=n_obs) [nbd]", case, result[1], le, dict(tags, which="delta2"), tol=1e-8)
    monitor.wrap(ctx, be, "_nbd_number_test_ndarray", post_n, mon_name="binomial_evaluations._nbd_number_test_ndarray")

    def post_gq(ctx, args, kwargs, result, exc, caller):
        a = dict(zip(("sim_counts", "obs_count"), args))
        a.update(kwargs)
        x = numpy.asarray(a["sim_counts"])
        v = a["obs_count"]
        if x.ndim != 1 or x.size == 0 or x.dtype.kind not in "fiu" or numpy.ndim(v) != 0:
            return
        case = {"exec": "emp", "args": {"sizes": x[:3000], "n": v}}
        if exc is not None:
            ctx.violate("empirical quantiles raised", case, observed=repr(exc), tags={"law": "empirical"})
            return
        ge = int(numpy.sum(x >= v)) / float(x.size)
        le = int(numpy.sum(x <= v)) / float(x.size)
        if float(result[0]) != ge or float(result[1]) != le:
            ctx.violate("empirical delta != counting", case, observed=result, expected=(ge, le),
                        tags={"law": "empirical", "tie": bool(numpy.any(x == v)), "caller": caller})
    monitor.wrap(ctx, stats, "get_quantiles", post_gq, mon_name="stats.get_quantiles")


# ---------------------------------------------------------------------------------------------
# executors


def ex_pois(ctx, mu, n):
    import csep.core.poisson_evaluations as pe
    ok, res, tb = ctx.call(pe._number_test_ndarray, mu, n)
    return res if ok else None


def ex_nbd(ctx, mu, n, var):
    import csep.core.binomial_evaluations as be
    ok, res, tb = ctx.call(be._nbd_number_test_ndarray, mu, n, var)
    return res if ok else None


def ex_emp(ctx, sizes, n):
    import csep.utils.stats as stats
    ctx.call(stats.get_quantiles, numpy.asarray(sizes), n)


def _small_setup(total, n_obs, rng, scale=None, int_rates=False, outside=0):
    mags = fixtures.mag_bins("4.95", "0.1", 3)
    reg = fixtures.region(2, 2, 0.1, 10.0, 20.0, magnitudes=mags)
    w = rng.uniform(0.1, 1.0, (4, 3))
    data = w / w.sum() * total
    fore = fixtures.gridded_forecast(data, reg, mags)
    factor = 1.0          # the factor last passed to scale(): kept by the harness, never read back from the forecast object
    if scale is not None:
        fore = fixtures.gridded_forecast(data / scale, reg, mags)
        fore.scale(scale)
        factor = scale
    if int_rates:
        # a rate table of INTEGER dtype (counts per bin) scaled by a fraction: the rates in force are table * factor, not truncated
        from csep.core.forecasts import GriddedForecast
        idata = rng.integers(1, 13, (4, 3)).astype(numpy.int64)
        fore = GriddedForecast(start_time=fore.start_time, end_time=fore.end_time, data=idata, region=reg, magnitudes=mags, name="int")
        factor = float(rng.choice([0.5, 0.3, 0.25]))
        fore.scale(factor)
    cells = rng.integers(0, 4, n_obs)
    lons, lats = fixtures.events_in_cells(reg, cells, rng)
    # n_obs is the number of events IN THE CATALOG: some of them lie below the forecast's lowest magnitude edge or far above its last one
    if outside and n_obs:
        # some of the catalog's events lie outside the forecast's spatial region (a catalog that was not filtered spatially): they are events of
        # the observed catalog all the same
        k_ = min(outside, n_obs)
        lons = numpy.asarray(lons, dtype=float).copy()
        lats = numpy.asarray(lats, dtype=float).copy()
        lons[:k_] = 10.0 + 0.1 * 2 + 0.35          # east of the 2 x 2 grid
        lats[-1] = 20.0 - 0.45                      # south of it
    cat = fixtures.catalog(lons, lats, rng.choice([5.0, 5.05, 5.2, 4.2, 4.9499, 8.7], n_obs), region=reg)
    fore._verif_factor = factor
    return fore, cat


def _dec_year(d):
    # position of an instant within its calendar year, from date arithmetic only
    y0 = datetime.datetime(d.year, 1, 1, tzinfo=d.tzinfo)
    y1 = datetime.datetime(d.year + 1, 1, 1, tzinfo=d.tzinfo)
    return d.year + (d - y0).total_seconds() / (y1 - y0).total_seconds()


# (start, end, test date) triples for scale_to_test_date: leap years, test dates before / on / after the leap day, periods across a year boundary
TEST_DATES = [((2012, 1, 1), (2013, 1, 1), (2012, 6, 29)), ((2012, 1, 1), (2013, 1, 1), (2012, 2, 14)), ((2024, 1, 1), (2025, 1, 1), (2024, 10, 31)),
              ((2011, 12, 1), (2012, 4, 1), (2012, 3, 10)), ((2010, 1, 1), (2011, 1, 1), (2010, 7, 4)), ((2012, 2, 1), (2012, 5, 1), (2012, 2, 29)),
              ((2019, 11, 15), (2020, 11, 15), (2020, 3, 1)), ((2000, 1, 1), (2005, 1, 1), (2004, 12, 30))]


def ex_e2e_poisson(ctx, total, n_obs, scale=None, seed=0, rescale_history=None):
    import csep.core.poisson_evaluations as pe
    rng = numpy.random.default_rng([seed, 7])
    fore, cat = _small_setup(total, n_obs, rng, scale, int_rates=(seed % 7 == 5 and not rescale_history),
                             outside=(1 + seed % 3) if (seed % 4 == 1 and seed % 5 != 3) else 0)
    base = numpy.array(fore._data, dtype=float, copy=True)       # the stored table as built: nothing below may change it
    if rescale_history:
        # history on one forecast object: the total is read (event_count / an N-test), then the same object is re-scaled
        for i_, f_ in enumerate(rescale_history):
            ctx.call(pe.number_test, fore, cat)
            ctx.call(lambda: fore.event_count)
            if isinstance(f_, str):
                # scale() is documented for "int, float, or ndarray": per-cell, per-magnitude-bin and full-table factors
                ra = numpy.random.default_rng([seed, 77, i_])
                shp = {"percell": (fore._data.shape[0], 1), "permag": (fore._data.shape[1],), "full": fore._data.shape}[f_]
                f_ = ra.uniform(0.2, 3.0, shp)
            fore.scale(f_)
    last = fore._verif_factor
    if rescale_history:
        last = f_
    if seed % 11 == 4 and not rescale_history:
        # the forecast is scaled to a test date: the factor is the fraction of the forecast period (in decimal years, the test counting to the
        # end of the given day) that has elapsed
        st, en, td = [datetime.datetime(*t_, tzinfo=UTC) for t_ in TEST_DATES[(seed // 11) % len(TEST_DATES)]]
        fore.start_time, fore.end_time = st, en
        fore.scale_to_test_date(td)
        last = (_dec_year(td + datetime.timedelta(days=1)) - _dec_year(st)) / (_dec_year(en) - _dec_year(st))
        ctx.mon("history:scaled-to-test-date", 1)
    if seed % 5 == 3 and n_obs and not rescale_history:
        # history: a scaled-rates T-test (per-day rates over the forecast horizon) ran on the same forecast object before the N-test
        mags_ = fore.magnitudes
        other = fixtures.gridded_forecast(numpy.asarray(fore.data) * 1.3 + 1e-3, fore.region, mags_)
        incat = fixtures.catalog(cat.get_longitudes(), cat.get_latitudes(), numpy.full(cat.event_count, 5.0), region=fore.region)
        ctx.call(pe.paired_t_test, fore, other, incat, scale=True)
        ctx.call(fore.target_event_rates, incat, scale=True)
        ctx.mon("history:scaled-T-test-before-N-test", 1)
    case = {"exec": "e2e_poisson", "args": {"total": total, "n_obs": n_obs, "scale": scale, "seed": seed, "rescale_history": rescale_history}}
    ok, res, tb = ctx.call(pe.number_test, fore, cat)
    ctx.mon("e2e:poisson number_test", 1)
    if not ok:
        ctx.violate("poisson number_test raised", case, observed=repr(res), tb=tb, tags={"law": "poisson", "e2e": True})
        return
    mu = float(math.fsum((base * last).ravel().tolist()))
    ge, le, pmf = pois_tails(mu, n_obs)
    tags = {"law": "poisson", "e2e": True, "scaled": scale is not None, "n_zero": n_obs == 0, "rescale_history": bool(rescale_history), "n_obs_large": n_obs > 16384,
            "array_factor": bool(rescale_history) and any(isinstance(f_, str) for f_ in rescale_history)}
    if res.observed_statistic != n_obs:
        ctx.violate("n_obs is not the catalog's event count", case, observed=res.observed_statistic, expected=n_obs, tags=tags)
    tol = TOL + 1e-9 * max(1.0, pmf * mu)      # d/dmu of the tails is bounded by pmf; total is a float sum
    _chk(ctx, "e2e delta1 [poisson]", case, res.quantile[0], ge, dict(tags, which="delta1"), tol)
    _chk(ctx, "e2e delta2 [poisson]", case, res.quantile[1], le, dict(tags, which="delta2"), tol)


def ex_e2e_nbd(ctx, total, n_obs, var, seed=0):
    import csep.core.binomial_evaluations as be
    rng = numpy.random.default_rng([seed, 8])
    # every third case: the forecast carries a scale factor (scale() / scale_to_test_date()); the variance is the one given, whatever the factor
    fore, cat = _small_setup(total, n_obs, rng, scale=[None, 0.5, 3.0, 0.25][(seed // 3) % 4] if seed % 3 == 1 else None, outside=(seed % 5 == 2))
    case = {"exec": "e2e_nbd", "args": {"total": total, "n_obs": n_obs, "var": var, "seed": seed}}
    ok, res, tb = ctx.call(be.negative_binomial_number_test, fore, cat, var)
    ctx.mon("e2e:nbd number_test", 1)
    if not ok:
        ctx.violate("NBD number_test raised", case, observed=repr(res), tb=tb, tags={"law": "nbd", "e2e": True})
        return
    mu = float(math.fsum((numpy.array(fore._data, dtype=float) * fore._verif_factor).ravel().tolist()))
    if not var > mu * (1 + 1e-9):
        return
    ge, le, pmf = nbd_tails(mu, var, n_obs)
    tags = {"law": "nbd", "e2e": True, "n_zero": n_obs == 0}
    if res.observed_statistic != n_obs:
        ctx.violate("n_obs is not the catalog's event count", case, observed=res.observed_statistic, expected=n_obs, tags=tags)
    _chk(ctx, "e2e delta1 [nbd]", case, res.quantile[0], ge, dict(tags, which="delta1"), 1e-7)
    _chk(ctx, "e2e delta2 [nbd]", case, res.quantile[1], le, dict(tags, which="delta2"), 1e-7)


def ex_e2e_catalog(ctx, sizes, n_obs, seed=0, pre_iterations=0, mutate=False, source="memory"):
    sizes0 = list(sizes)
    import csep.core.catalog_evaluations as ce
    rng = numpy.random.default_rng([seed, 9])
    mags = fixtures.mag_bins("4.95", "0.1", 3)
    reg = fixtures.region(2, 2, 0.1, 10.0, 20.0, magnitudes=mags)
    cats = []
    for j, s in enumerate(sizes):
        cells = rng.integers(0, 4, s)
        lons, lats = fixtures.events_in_cells(reg, cells, rng)
        cats.append(fixtures.catalog(lons, lats, rng.choice([5.0, 5.1], s), region=reg, catalog_id=j))
    cf = fixtures.catalog_forecast(cats, reg)
    tmpd = None
    if source != "memory" and len(cats) and len(cats[-1].catalog) >= 0:
        # the same synthetic catalogs streamed from a catalog-forecast file: empty catalogs as placeholder rows ("file") or simply omitted,
        # i.e. gaps in the catalog ids ("file-gaps"; the final id is always present)
        import csep
        import tempfile
        from . import c12
        tmpd = scratch_dir("c07-")
        path = os.path.join(tmpd, "fc.csv")
        rows = [[(e[0].decode(), int(e[1]), float(e[2]), float(e[3]), float(e[4]), float(e[5])) for e in c.catalog.tolist()] for c in cats]
        kwf = {}
        if source == "file-filtered":
            # the file holds extra events below the magnitude threshold; the forecast is configured to filter them on EVERY pass (store=False)
            rows = [r_ + [("x%d_%d" % (j_, q_), e_[1] + 1, e_[2], e_[3], e_[4], 4.2) for q_, e_ in enumerate(r_[:2])] for j_, r_ in enumerate(rows)]
            kwf = {"filters": ["magnitude >= 4.95"], "apply_filters": True}
        c12.write_file(path, rows, [source != "file-gaps"] * len(rows), bool(seed % 2), "frac")
        cf = csep.load_catalog_forecast(path, region=reg, store=(bool(seed % 3) and source != "file-filtered"), name="cf", **kwf)
    cells = rng.integers(0, 4, n_obs)
    lons, lats = fixtures.events_in_cells(reg, cells, rng)
    obs = fixtures.catalog(lons, lats, rng.choice([5.0, 5.1], n_obs), region=reg)
    for _ in range(pre_iterations):
        for _c in cf:
            pass
    if mutate:
        # history: the user filters the synthetic catalogs in place while iterating (CSEPCatalog.filter works in place by default);
        # the N-test must use the sizes the catalogs have when the test runs
        for _c in cf:
            _c.filter("magnitude >= 5.05")
        sizes = [int(numpy.sum(c.get_magnitudes() >= 5.05)) for c in cats]
    case = {"exec": "e2e_catalog", "args": {"sizes": list(map(int, sizes0)), "n_obs": n_obs, "seed": seed, "pre_iterations": pre_iterations, "mutate": mutate,
                                            "source": source}}
    ok, res, tb = ctx.call(ce.number_test, cf, obs, verbose=False)
    if tmpd is not None:
        import shutil
        shutil.rmtree(tmpd, ignore_errors=True)
    ctx.mon("e2e:catalog number_test", 1)
    if not ok:
        ctx.violate("catalog number_test raised", case, observed=repr(res), tb=tb, tags={"law": "empirical", "e2e": True})
        return
    x = numpy.asarray(sizes)
    ge, le = int(numpy.sum(x >= n_obs)) / float(x.size), int(numpy.sum(x <= n_obs)) / float(x.size)
    tags = {"law": "empirical", "e2e": True, "tie": bool(numpy.any(x == n_obs)), "pre_iterations": pre_iterations, "mutated_in_place": mutate, "source": source}
    if res.observed_statistic != n_obs:
        ctx.violate("n_obs is not the catalog's event count", case, observed=res.observed_statistic, expected=n_obs, tags=tags)
    if float(res.quantile[0]) != ge or float(res.quantile[1]) != le:
        ctx.violate("catalog N-test deltas != empirical tail probabilities of the synthetic sizes", case, observed=res.quantile,
                    expected=(ge, le), tags=tags)
    if list(map(int, res.test_distribution)) != list(map(int, sizes)):
        ctx.violate("catalog N-test distribution != synthetic catalog sizes", case, observed=res.test_distribution, expected=sizes, tags=tags)


EXECUTORS = {"pois": ex_pois, "nbd": ex_nbd, "emp": ex_emp, "e2e_poisson": ex_e2e_poisson, "e2e_nbd": ex_e2e_nbd,
             "e2e_catalog": ex_e2e_catalog}


def n_grid(mu, rng):
    s = math.sqrt(mu)
    c = {0, 1, 2, int(mu) - 1, int(mu), int(mu) + 1, int(mu + s), int(mu - s), int(mu + 3 * s), int(mu - 3 * s), int(mu + 6 * s),
         int(rng.integers(0, 50)), 100000}
    return sorted(x for x in c if 0 <= x <= 100000)


def run(ctx):
    install(ctx)
    thorough = ctx.tier == "thorough"
    rng = ctx.rng("c07")
    nm = (200000 if thorough else 1500)
    means = numpy.sort(10 ** rng.uniform(-6, 5, nm))
    means = numpy.concatenate([means, [1e-6, 1e-3, 0.5, 1.0, 2.5, 10.0, 100.0, 1e3, 1e4, 1e5]])
    # ---- primitives on the grid + identity
    for i, mu in enumerate(means):
        if not ctx.mine(i):
            continue
        mu = float(mu)
        for n in n_grid(mu, rng):
            r = ex_pois(ctx, mu, n)
            ctx.count(1)
            ge, le, pmf = pois_tails(mu, n)
            if pmf > 1e-6:
                ctx.nt(digest(("p", mu, n)))
            if r is not None:
                ctx.mon("identity:delta1+delta2=1+pmf", 1)
                if abs(float(r[0]) + float(r[1]) - 1.0 - pmf) > 2e-9:
                    ctx.violate("delta1+delta2 != 1+P(N=n_obs) [poisson]", {"exec": "pois", "args": {"mu": mu, "n": n}},
                                observed=float(r[0]) + float(r[1]), expected=1.0 + pmf, tags={"law": "poisson", "identity": True})
            for e in (rng.uniform(-3, 3), rng.uniform(-9, 9), -3.0, 3.0, -8.0, 8.0)[:3 if not thorough else 6]:
                var = mu * (1.0 + 10 ** e)
                if var > mu * (1 + 1e-9):
                    r2 = ex_nbd(ctx, mu, n, var)
                    ctx.count(1)
                    g2, l2, pmf2 = nbd_tails(mu, var, n)
                    if pmf2 > 1e-6:
                        ctx.nt(digest(("n", mu, n, var)))
                    # beyond variance/mean ratios 1 +- 1e-3 .. 1e3 the incomplete-beta evaluations (scipy, used by the library and by the
                    # oracle alike) are themselves only good to ~1e-7 (r up to 1e14): the identity is then decided at 1e-6 (observed deviations up to 2.3e-7 at r = 7e10)
                    if r2 is not None and abs(float(r2[0]) + float(r2[1]) - 1.0 - pmf2) > (2e-8 if abs(e) <= 3 else 1e-6):
                        ctx.violate("delta1+delta2 != 1+P(N=n_obs) [nbd]", {"exec": "nbd", "args": {"mu": mu, "n": n, "var": var}},
                                    observed=float(r2[0]) + float(r2[1]), expected=1.0 + pmf2, tags={"law": "nbd", "identity": True})
        if i % 97 == 0:
            ctx.sample({"law": "poisson+nbd", "mean": mu, "n_obs_grid": n_grid(mu, rng)})
    # ---- monotonicity in the mean at fixed n (library's own answers)
    import csep.core.poisson_evaluations as pe
    import csep.core.binomial_evaluations as be
    for j, n in enumerate([0, 1, 2, 5, 17, 100, 1000, 20000]):
        if not ctx.mine(j):
            continue
        ms = numpy.sort(numpy.concatenate([means[::max(1, len(means) // 150)], n * (1 + numpy.linspace(-0.5, 0.5, 41)) + 1e-3]))
        ms = ms[ms > 0]
        with monitor.suspended():
            d = numpy.array([pe._number_test_ndarray(float(m), n) for m in ms], dtype=float)
            dn = numpy.array([be._nbd_number_test_ndarray(float(m), n, float(m) * 3.0) for m in ms], dtype=float)
        ctx.mon("identity:monotone-in-mean", 2)
        for arr, law in ((d, "poisson"), (dn, "nbd")):
            bad1 = numpy.nonzero(numpy.diff(arr[:, 0]) < -1e-9)[0]
            bad2 = numpy.nonzero(numpy.diff(arr[:, 1]) > 1e-9)[0]
            if bad1.size or bad2.size:
                k = int((bad1.tolist() + bad2.tolist())[0])
                ctx.violate("tails not monotone in the forecast mean [%s]" % law, {"exec": "pois", "args": {"mu": float(ms[k]), "n": n}},
                            observed=arr[k:k + 2], tags={"law": law, "monotone": True})
        ctx.count(len(ms) * 2)
    # ---- end to end
    ne = 60000 if thorough else 320
    for j in range(ne):
        if not ctx.mine(j):
            continue
        r = ctx.rng("c07e2e", j)
        total = float(10 ** r.uniform(-3, 3.3))
        n_obs = int(r.choice([0, 1, 2, max(0, int(total)), int(total) + 1, int(r.integers(0, 60)), int(total * 2)]))
        n_obs = min(n_obs, 4000)
        scale = None if j % 3 else float(r.choice([0.5, 2.0, 0.1, 7.0]))
        ex_e2e_poisson(ctx, total, n_obs, scale, seed=j, rescale_history=None if j % 4 else ([float(r.choice([2.0, 0.5, 3.0])), float(r.choice([0.25, 1.0, 5.0]))] if j % 8 else
                                                            [float(r.choice([2.0, 0.5])), str(r.choice(["percell", "permag", "full"]))]))
        ex_e2e_nbd(ctx, total, n_obs, total * (1 + 10 ** (r.uniform(-2, 2) if j % 3 else r.uniform(-8, 8))), seed=j)
        ctx.count(2)
        ctx.nt(digest(("e2e", j, ctx.seed, total, n_obs)))
        # empirical
        J = int(r.integers(1, 40))
        sizes = r.poisson(r.uniform(0.3, 8), J)
        nob = int(r.choice([0, int(sizes.min()), int(sizes.max()), int(sizes[0]), int(sizes.max()) + 1, int(r.integers(0, 12))]))
        ex_e2e_catalog(ctx, sizes.tolist(), nob, seed=j, pre_iterations=int(j % 4 == 1) + int(j % 8 == 5) + int(j % 8 == 7), mutate=bool(j % 5 == 2),
                       source="memory" if j % 5 == 2 else ["memory", "file", "file-gaps", "file-filtered"][j % 4])
        ctx.count(1)
        if numpy.any(sizes == nob):
            ctx.nt(digest(("emp", sizes.tolist(), nob)))
        if j % 20 == 0:
            ctx.sample({"e2e": True, "forecast_total": total, "n_obs": n_obs, "scale": scale, "synthetic_sizes": sizes.tolist(), "n_obs_emp": nob})
    # ---- large observed counts through the public wrappers (n_obs up to 1e5 is in the domain)
    for j, n_big in enumerate([16385, 20000, 50000, 100000] if thorough else [16385, 40000, 100000]):
        if ctx.mine(j):
            for fac in (0.97, 1.0, 1.02):
                ex_e2e_poisson(ctx, n_big * fac, n_big, None, seed=1000 + j)
                ex_e2e_nbd(ctx, n_big * fac, n_big, n_big * fac * 1.5, seed=1000 + j)
                ctx.count(2)
                ctx.nt(digest(("big", n_big, fac)))
    # ---- empirical multisets with heavy ties (primitive)
    for j in range(30000 if thorough else 200):
        if not ctx.mine(j):
            continue
        r = ctx.rng("c07emp", j)
        sizes = r.integers(0, int(r.integers(1, 9)), int(r.integers(1, 200)))
        if j % 4 == 3:
            # catalog sizes over the whole stated range of counts (up to 1e5): neighbouring sizes n-1, n, n+1 around a base that is large
            # enough for a RELATIVE closeness test to confuse them (1e5 +- 1 differ by 1e-5 of their value), ints and floats
            base = int(r.choice([100000, 99999, 65536, 16385, 1000, 31622]))
            sizes = base + sizes - int(sizes.max()) // 2
            sizes = numpy.maximum(sizes, 0)
            if j % 8 == 7:
                sizes = sizes.astype(float)
        for v in (int(sizes.min()) - 1, int(sizes.min()), int(sizes.max()), int(sizes.max()) + 1, int(r.choice(sizes))):
            ex_emp(ctx, sizes, v)
            ctx.count(1)
            ctx.nt(digest(("empp", ctx.seed, j, v)))
