"""C17 - quadtree grids tile the globe and locate points in their containing tile."""
import math
from fractions import Fraction

import numpy

from .. import fixtures
from ..core import digest
from ..oracles.binning import ulp_shift

LAT_LIM = 85.0511287798066
R_KM = 6371.0

META = {
    "title": "Quadtree grids tile the globe and locate points",
    "level": "exploration",
    "rule": ("grids: from_single_resolution(z), from_catalog(catalog, threshold, max zoom) for clustered/uniform/single-point catalogs and "
             "catalogs with events exactly on tile boundaries, the antimeridian and the Mercator limits, arbitrary prefix-free quadkey sets "
             "(random tree cuts, non-covering, shuffled order) and the shipped California grid; probes: every (sampled) tile corner +-1..3 "
             "ulps, centres, lon=+-180, |lat| at/inside/outside the limit, random; scalar and array queries. Non-trivial: probe within 8 ulps of "
             "a tile boundary or outside every cell; grid with >= 2 distinct depths; distinct = (grid digest, probe)."),
    "assumptions": ["containing cell decided by exact comparison with the library's own bounds floats (no trigonometric rounding in the verdict)",
                    "own Web-Mercator tile arithmetic used only for the bounds cross-check (1e-9 deg) and parent boxes"],
    "deciding": ["invariant:tiling", "post:get_index_of", "invariant:refinement"],
}
META["added"] = 'Added: threshold 0. special points (antimeridian, limits, beyond +-180) queried one by one, get_bbox clause, tile edges at exactly 0.0 probed within 1 ulp, clusters above threshold inside one maximum-zoom tile. array queries mixing inside and outside points, deep swarms refined to zoom 12-19 with a per-cell area clause. catalogs with events poleward of the Mercator limit. get_cartesian before lookups. zoom 7 and 8 in the quick tier too; from_catalog with magnitude bins and events below the lowest edge.'
MANIFEST = {
    "technique": "invariants on live QuadtreeGrid2D objects after each constructor (prefix-free quadkeys with dyadic measure 1 in exact integer arithmetic, bounds vs own tile arithmetic, refinement recount of every leaf and internal node, area sum) + post-condition on get_index_of vs brute-force exact containment on boundary-adjacent probes",
    "level_text": "Each constructed grid is checked as an object (tiling by exact dyadic measure, bounds, refinement criterion by recounting events per leaf and per internal node with the same half-open comparisons, cell areas) and every lookup of boundary-adjacent probe points is compared with the unique cell found by exact comparison against the grid's own bounds.",
    "level_note": "Trusted: exact float comparisons, Fraction arithmetic for the dyadic measure. Catalog/threshold/zoom space sampled; zooms 1..8 enumerated.",
}
WATCHDOG_S = {"quick": 900, "thorough": 5400}


def shards(tier):
    return 4 if tier == "quick" else 16


def tile_bounds(qk):
    z = len(qk)
    x = y = 0
    for ch in qk:
        d = int(ch)
        x = (x << 1) | (d & 1)
        y = (y << 1) | (d >> 1)
    n = 2.0 ** z

    def lat(yy):
        return math.degrees(math.atan(math.sinh(math.pi * (1 - 2 * yy / n))))
    return (x / n * 360.0 - 180.0, lat(y + 1), (x + 1) / n * 360.0 - 180.0, lat(y))


def containing(bounds, lons, lats, chunk=256):
    """For each probe: (number of cells whose half-open box contains it, index of the first such cell or -1)."""
    cnt = numpy.zeros(len(lons), dtype=int)
    first = -numpy.ones(len(lons), dtype=int)
    b = numpy.asarray(bounds, dtype=float)
    for s in range(0, len(lons), chunk):
        lo = numpy.asarray(lons[s:s + chunk], dtype=float)[:, None]
        la = numpy.asarray(lats[s:s + chunk], dtype=float)[:, None]
        inside = (lo >= b[None, :, 0]) & (la >= b[None, :, 1]) & (lo < b[None, :, 2]) & (la < b[None, :, 3])
        cnt[s:s + chunk] = inside.sum(axis=1)
        any_ = inside.any(axis=1)
        first[s:s + chunk] = numpy.where(any_, inside.argmax(axis=1), -1)
    return cnt, first


def check_grid(ctx, reg, rc, tags, tiling, catalog=None, threshold=None, zoom=None):
    qk = [str(q) for q in reg.quadkeys]
    bounds = numpy.asarray(reg.bounds, dtype=float)
    ctx.mon("invariant:tiling", 1)
    # prefix-free + dyadic measure
    s = sorted(qk)
    for a, b in zip(s, s[1:]):
        if b.startswith(a):
            ctx.violate("two cells overlap (one quadkey is a prefix of another)", rc, observed=[a, b], tags=dict(tags, clause="overlap"))
            return False
    measure = sum(Fraction(1, 4 ** len(q)) for q in qk)
    if tiling and measure != 1:
        ctx.violate("cells do not cover the globe exactly once (dyadic measure != 1)", rc, observed=str(measure), expected="1",
                    tags=dict(tags, clause="cover"))
        return False
    bb = reg.get_bbox()
    if tuple(map(float, bb)) != (float(bounds[:, 0].min()), float(bounds[:, 2].max()), float(bounds[:, 1].min()), float(bounds[:, 3].max())):
        ctx.violate("get_bbox is not the bounding box of the cells (west, east, south, north)", rc, observed=tuple(map(float, bb)), tags=dict(tags, clause="bbox"))
    if len(qk) != bounds.shape[0] or len(reg.polygons) != len(qk):
        ctx.violate("quadkeys / bounds / polygons have different lengths", rc, observed=[len(qk), bounds.shape, len(reg.polygons)], tags=tags)
        return False
    ref = numpy.array([tile_bounds(q) for q in qk])
    if not numpy.allclose(bounds, ref, rtol=0, atol=1e-9):
        k = int(numpy.nonzero(~numpy.isclose(bounds, ref, rtol=0, atol=1e-9).all(axis=1))[0][0])
        ctx.violate("cell bounds are not the Web-Mercator bounds of the quadkey (west,south,east,north)", rc,
                    observed={"quadkey": qk[k], "bounds": bounds[k]}, expected=ref[k], tags=dict(tags, clause="bounds"))
        return False
    if tiling:
        area = numpy.asarray(reg.get_cell_area(), dtype=float)
        want = 2 * math.pi * R_KM ** 2 * (math.sin(math.radians(bounds[:, 3].max())) - math.sin(math.radians(bounds[:, 1].min())))
        ctx.mon("invariant:area", 1)
        if abs(area.sum() - want) > 1e-9 * want or numpy.any(area <= 0):
            ctx.violate("cell areas do not add up to the area of the covered latitude band", rc, observed=float(area.sum()), expected=want,
                        tags=dict(tags, clause="area"))
        else:
            # per cell: area of the spherical rectangle [lon0,lon1] x [lat0,lat1] (closed form), so that a deficit cannot hide in the global sum
            ref = R_KM ** 2 * numpy.radians(bounds[:, 2] - bounds[:, 0]) * (numpy.sin(numpy.radians(bounds[:, 3])) - numpy.sin(numpy.radians(bounds[:, 1])))
            badc = numpy.abs(area - ref) > 1e-6 * ref
            if badc.any():
                k = int(numpy.nonzero(badc)[0][0])
                ctx.violate("a cell's area is not the area of its latitude-longitude box", rc, observed={"quadkey": qk[k], "area": float(area[k])},
                            expected=float(ref[k]), tags=dict(tags, clause="area-cell", zero=bool(area[k] == 0), depth=len(qk[k])))
    if catalog is not None:
        ctx.mon("invariant:refinement", 1)
        lon = numpy.asarray(catalog.get_longitudes(), dtype=float)
        lat = numpy.asarray(catalog.get_latitudes(), dtype=float)
        # leaves
        for q, b in zip(qk, bounds):
            c = int(numpy.sum((lon >= b[0]) & (lat >= b[1]) & (lon < b[2]) & (lat < b[3])))
            if c > threshold and len(q) < zoom:
                ctx.violate("a cell holds more events than the threshold although it is below the maximum zoom", rc,
                            observed={"quadkey": q, "count": c}, expected={"threshold": threshold, "zoom": zoom}, tags=dict(tags, clause="under-refined"))
                return False
            if len(q) > zoom:
                ctx.violate("a cell is deeper than the maximum zoom", rc, observed=q, expected=zoom, tags=dict(tags, clause="too-deep"))
                return False
        # internal nodes: every proper prefix (length>=1) of a leaf was split, so it must hold more than threshold events
        internal = set()
        for q in qk:
            for L in range(1, len(q)):
                internal.add(q[:L])
        leaf_of = {}
        for q, b in zip(qk, bounds):
            for L in range(1, len(q)):
                leaf_of.setdefault(q[:L], []).append(b)
        for node in internal:
            bb = numpy.array(leaf_of[node])
            w, s_, e, n = bb[:, 0].min(), bb[:, 1].min(), bb[:, 2].max(), bb[:, 3].max()
            c = int(numpy.sum((lon >= w) & (lat >= s_) & (lon < e) & (lat < n)))
            if c <= threshold:
                ctx.violate("a cell at or below the threshold was split", rc, observed={"quadkey": node, "count": c},
                            expected={"threshold": threshold}, tags=dict(tags, clause="over-refined"))
                return False
    return True


def make_probes(bounds, rng, max_cells=400):
    b = numpy.asarray(bounds, dtype=float)
    sel = numpy.arange(len(b)) if len(b) <= max_cells else numpy.unique(numpy.concatenate(
        [numpy.arange(8), numpy.arange(len(b) - 8, len(b)), rng.integers(0, len(b), max_cells)]))
    bb = b[sel]
    xs = numpy.concatenate([bb[:, 0], bb[:, 2]])
    ys = numpy.concatenate([bb[:, 1], bb[:, 3]])
    cx = numpy.concatenate([bb[:, 0], bb[:, 0], bb[:, 2], bb[:, 2]])
    cy = numpy.concatenate([bb[:, 1], bb[:, 3], bb[:, 1], bb[:, 3]])
    offs = numpy.array([0, 1, -1, 2, -2, 3, -3])
    lon, lat = [], []
    for ox in offs[:5]:
        for oy in offs[:5]:
            lon.append(ulp_shift(cx, ox))
            lat.append(ulp_shift(cy, oy))
    lon.append((bb[:, 0] + bb[:, 2]) / 2)
    lat.append((bb[:, 1] + bb[:, 3]) / 2)
    extra_lon = numpy.array([-180.0, 180.0, numpy.nextafter(180.0, 0), 0.0, -0.0, 179.99999999999997, -180.0, 0.0, 90.0, 200.0, -181.0, 180.0, 180.0, 180.0, 360.0, 190.0])
    extra_lat = numpy.array([0.0, 0.0, 0.0, LAT_LIM, -LAT_LIM, numpy.nextafter(LAT_LIM, 0), numpy.nextafter(-LAT_LIM, 0), 0.0, 86.0, 0.0, 0.0, 45.0, -60.0, 10.5, 0.0, 20.0])
    lon.append(extra_lon)
    lat.append(extra_lat)
    lon.append(rng.uniform(-180, 180, 200))
    lat.append(rng.uniform(-88, 88, 200))
    lon = numpy.concatenate(lon)
    lat = numpy.concatenate(lat)
    pts = numpy.unique(numpy.column_stack([lon, lat]), axis=0)
    return pts[:, 0], pts[:, 1]


def check_lookup(ctx, reg, rc, tags, rng, tiling):
    bounds = numpy.asarray(reg.bounds, dtype=float)
    if int(rng.integers(0, 2)) and hasattr(reg, "get_cartesian"):
        # history: the grid was asked for its bounding-box (plotting) layout before any point is located
        ctx.call(reg.get_cartesian, numpy.arange(reg.num_nodes, dtype=float))
        tags = dict(tags, history="get_cartesian first")
    lon, lat = make_probes(bounds, rng)
    cnt, first = containing(bounds, lon, lat)
    if numpy.any(cnt > 1):
        k = int(numpy.nonzero(cnt > 1)[0][0])
        ctx.violate("a point lies in more than one cell (cells not disjoint as float boxes)", rc, observed={"point": [lon[k], lat[k]], "cells": int(cnt[k])},
                    tags=dict(tags, clause="overlap-float"))
    if tiling:
        dom = (lon >= -180.0) & (lon < 180.0) & (lat >= bounds[:, 1].min()) & (lat < bounds[:, 3].max())
        if numpy.any(dom & (cnt == 0)):
            k = int(numpy.nonzero(dom & (cnt == 0))[0][0])
            ctx.violate("a point of the covered band lies in no cell", rc, observed={"point": [lon[k], lat[k]]}, tags=dict(tags, clause="gap-float"))
    ins = numpy.nonzero(cnt >= 1)[0]
    out = numpy.nonzero(cnt == 0)[0]
    # array query with all-inside points
    sub = ins[rng.permutation(ins.size)[:600]]
    ok, got, tb = ctx.call(reg.get_index_of, lon[sub], lat[sub])
    ctx.mon("post:get_index_of", 1)
    nt = int(sub.size)
    if not ok:
        ctx.violate("get_index_of raised on in-grid points", rc, observed=repr(got), tb=tb, tags=dict(tags, clause="lookup-raised"))
    else:
        got = numpy.asarray(got)
        if got.shape != (sub.size,) or not numpy.array_equal(got, first[sub]):
            if got.shape == (sub.size,):
                k = int(numpy.nonzero(got != first[sub])[0][0])
                ob = {"point": [lon[sub][k], lat[sub][k]], "got": int(got[k])}
                ex = {"cell": int(first[sub][k]), "bounds": bounds[first[sub][k]]}
            else:
                ob, ex = {"returned": int(got.size)}, {"queried": int(sub.size), "cell0_points": int((first[sub] == 0).sum())}
            ctx.violate("array lookup does not return the containing cell of every point", rc, observed=ob, expected=ex, tags=dict(tags, clause="lookup-array"))
    # array query mixing points that lie in no cell with points that do, in arbitrary order: points without a cell are returned as
    # "no match" (dropped), every other point still gets its own cell - the answer for a point must not depend on its neighbours in the batch
    if out.size and ins.size:
        mix = numpy.concatenate([out[rng.permutation(out.size)[:15]], ins[rng.permutation(ins.size)[:40]]])
        mix = mix[rng.permutation(mix.size)]
        if cnt[mix[0]] != 0:                                 # make sure an outside point comes first at least every other time
            j0 = int(numpy.nonzero(cnt[mix] == 0)[0][0])
            mix[0], mix[j0] = mix[j0], mix[0]
        ok, got, tb = ctx.call(reg.get_index_of, lon[mix], lat[mix])
        ctx.mon("post:get_index_of", 1)
        want = first[mix][cnt[mix] >= 1]
        if not ok:
            ctx.violate("get_index_of raised", rc, observed=repr(got), tb=tb, tags=dict(tags, clause="lookup-raised", form="mixed-array"))
        elif numpy.asarray(got).shape != want.shape or not numpy.array_equal(numpy.asarray(got), want):
            ctx.violate("array lookup mixing points inside and outside the grid does not return the containing cell of every inside point", rc,
                        observed={"returned": numpy.asarray(got)[:8], "n": int(numpy.asarray(got).size)}, expected={"cells": want[:8], "n": int(want.size)},
                        tags=dict(tags, clause="lookup-array-mixed"))
    # scalar / single-element queries, inside and outside
    special = numpy.nonzero(numpy.isin(lon, [-180.0, 180.0, 0.0]) | (numpy.abs(lat) == LAT_LIM) | (lon >= 180.0) | (lon < -180.0))[0]
    special = special[rng.permutation(special.size)[:60]]
    for k in numpy.concatenate([ins[rng.permutation(ins.size)[:60]], out[rng.permutation(out.size)[:40]], special, numpy.nonzero(first == 0)[0][:5]]).astype(int):
        x, y = float(lon[k]), float(lat[k])
        for form in ("scalar", "list1"):
            ok, g, tb = ctx.call(reg.get_index_of, x, y) if form == "scalar" else ctx.call(reg.get_index_of, [x], [y])
            ctx.mon("post:get_index_of", 1)
            if not ok:
                ctx.violate("get_index_of raised", rc, observed=repr(g), tb=tb, tags=dict(tags, clause="lookup-raised", form=form))
                continue
            g = numpy.atleast_1d(numpy.asarray(g))
            want = [] if cnt[k] == 0 else [int(first[k])]
            if g.tolist() != want:
                ctx.violate("lookup of a single point is not its containing cell / no cell", rc, observed={"point": [x, y], "got": g.tolist()},
                            expected=want, tags=dict(tags, clause="lookup-single", form=form, outside=bool(cnt[k] == 0), cell0=bool(first[k] == 0)))
        nt += 1
    ctx.count(int(sub.size) + 210)
    return nt


def _catalog(rng, kind, zoom, threshold=1):
    n = int(rng.integers(1, 400))
    if kind == "hairline":
        # a tile holding exactly `threshold` events (on its west edge and inside) whose west neighbour holds threshold+1 events, some of them on
        # the last double west of the shared meridian (and ~1e-14 deg west of it); plus more than `threshold` events at longitudes 180 / 190,
        # which lie in no cell. Counts sit at the threshold margin: moving one hairline event across the meridian, or counting the events
        # beyond the antimeridian anywhere, changes which tiles must be split.
        import mercantile
        z0 = int(rng.integers(1, min(zoom, 7) + 1))
        x = int(rng.integers(1, 2 ** z0))
        y = int(rng.integers(0, 2 ** z0))
        east, west = mercantile.bounds(mercantile.Tile(x, y, z0)), mercantile.bounds(mercantile.Tile(x - 1, y, z0))
        b = float(east.west)
        mid = 0.5 * (east.south + east.north)
        lon = [b] * (threshold // 2) + [b + 0.25 * (east.east - b)] * (threshold - threshold // 2)
        m = int(rng.integers(1, 4))
        hair = [float(numpy.nextafter(b, -numpy.inf)), b - 1e-14 if b - 1e-14 < b else float(numpy.nextafter(b, -numpy.inf))]
        lon += [hair[i % 2] for i in range(m)]
        lon += [float(west.west) + 0.5 * (b - float(west.west))] * max(0, threshold + 1 - m)
        lat = [mid] * len(lon)
        k = threshold + 2
        lon += [180.0, 190.0] * k
        lat += [float(rng.uniform(-60, 60))] * (2 * k)
        return numpy.array(lon, dtype=float), numpy.array(lat, dtype=float)
    if kind == "cluster":
        c = rng.uniform([-170, -70], [170, 70], (int(rng.integers(1, 5)), 2))
        idx = rng.integers(0, len(c), n)
        lon = numpy.clip(c[idx, 0] + rng.normal(0, 3, n), -179.9, 179.9)
        lat = numpy.clip(c[idx, 1] + rng.normal(0, 3, n), -84, 84)
    elif kind == "uniform":
        lon, lat = rng.uniform(-180, 180, n), rng.uniform(-85, 85, n)
    elif kind == "point":
        lon, lat = numpy.full(n, float(rng.uniform(-180, 180))), numpy.full(n, float(rng.uniform(-80, 80)))
    elif kind == "polar":
        # many events poleward of the Web-Mercator limit (they lie in no tile and must not drive any refinement) + a few ordinary ones
        n_in = int(rng.integers(0, 6))
        lon = numpy.concatenate([rng.uniform(-180, 180, n), rng.uniform(-180, 180, n_in)])
        lat = numpy.concatenate([rng.choice([-1.0, 1.0], n) * rng.uniform(85.06, 89.9, n), rng.uniform(-80, 84, n_in)])
    elif kind == "deepcluster":
        # a tight swarm (a few hundred metres) far from the equator / Greenwich: the refinement runs down to the maximum zoom in one spot
        n = int(rng.integers(20, 60))
        c = [float(rng.choice([20.0, 179.99, -179.99, -120.3])), float(rng.choice([80.0, -78.0, 60.5, 84.9]))]
        lon = c[0] + rng.uniform(-1, 1, n) * 2e-3
        lat = c[1] + rng.uniform(-1, 1, n) * 5e-4
        lon = numpy.clip(lon, -180.0, 179.9999999)
    else:  # events exactly on tile boundaries of several zooms
        z = int(rng.integers(1, max(2, zoom) + 1))
        qks = ["".join(str(d) for d in rng.integers(0, 4, z)) for _ in range(n)]
        b = numpy.array([tile_bounds(q) for q in qks])
        pick = rng.integers(0, 4, n)
        lon = numpy.where(pick % 2 == 0, b[:, 0], rng.uniform(b[:, 0], b[:, 2]))
        lat = numpy.where(pick >= 1, b[:, 1], rng.uniform(b[:, 1], b[:, 3]))
        lon = numpy.where(rng.uniform(size=n) < 0.05, -180.0, lon)
        lon = numpy.clip(lon, -180.0, numpy.nextafter(180.0, 0))
        # use the library's own boundary floats (mercantile) so events sit *exactly* on tile edges
        import mercantile
        exact = numpy.array([[mercantile.bounds(mercantile.quadkey_to_tile(q)).west, mercantile.bounds(mercantile.quadkey_to_tile(q)).south] for q in qks])
        lon = numpy.where(pick % 2 == 0, exact[:, 0], lon)
        lat = numpy.where(pick >= 1, exact[:, 1], lat)
        # repeat some events so that boundary events decide a split
        rep = rng.integers(0, n, n // 2)
        lon = numpy.concatenate([lon, lon[rep]])
        lat = numpy.concatenate([lat, lat[rep]])
    return lon, lat


def ex_single(ctx, zoom, seed=0):
    from csep.core.regions import QuadtreeGrid2D
    rc = {"exec": "single", "args": {"zoom": zoom, "seed": seed}}
    ctx.current_case = rc
    tags = {"ctor": "from_single_resolution", "zoom": zoom}
    ok, reg, tb = ctx.call(QuadtreeGrid2D.from_single_resolution, zoom)
    if not ok:
        ctx.violate("from_single_resolution raised", rc, observed=repr(reg), tb=tb, tags=tags)
        return
    if len(reg.quadkeys) != 4 ** zoom:
        ctx.violate("single-resolution grid does not have 4^zoom cells", rc, observed=len(reg.quadkeys), expected=4 ** zoom, tags=tags)
    if check_grid(ctx, reg, rc, tags, tiling=True):
        nt = check_lookup(ctx, reg, rc, tags, numpy.random.default_rng([seed, zoom]), tiling=True)
        ctx.nt_bulk(digest(("single", zoom, seed)), nt)


def ex_catalog(ctx, kind, threshold, zoom, seed):
    from csep.core.regions import QuadtreeGrid2D
    rng = numpy.random.default_rng([seed, 17])
    lon, lat = _catalog(rng, kind, zoom, threshold)
    kw = {}
    mvals = numpy.full(len(lon), 5.0)
    if seed % 3 == 0:
        # magnitude bins are bound to the grid while it is built; most events lie below the lowest edge - they are events of the catalog all the same
        kw["magnitudes"] = fixtures.mag_bins("4.95", "0.1", 4)
        mvals = numpy.random.default_rng([seed, 171]).choice([4.0, 4.5, 5.0, 5.5], len(lon), p=[0.4, 0.3, 0.2, 0.1])
    cat = fixtures.catalog(lon, lat, mvals)
    rc = {"exec": "catalog", "args": {"kind": kind, "threshold": threshold, "zoom": zoom, "seed": seed}}
    ctx.current_case = rc
    tags = {"ctor": "from_catalog", "kind": kind, "magnitude_bins_given": bool(kw)}
    ok, reg, tb = ctx.call(QuadtreeGrid2D.from_catalog, cat, threshold, zoom=zoom, **kw)
    if not ok:
        ctx.violate("from_catalog raised", rc, observed=repr(reg), tb=tb, tags=tags)
        return
    if check_grid(ctx, reg, rc, tags, tiling=True, catalog=cat, threshold=threshold, zoom=zoom):
        nt = check_lookup(ctx, reg, rc, tags, rng, tiling=True)
        # the catalog's own events must be located in cells whose recount matches
        ok, idx, tb = ctx.call(reg.get_index_of, numpy.asarray(lon), numpy.asarray(lat))
        if not ok:
            ctx.violate("get_index_of raised", rc, observed=repr(idx), tb=tb, tags=dict(tags, clause="lookup-raised", form="catalog-events"))
        else:
            cnt, first = containing(reg.bounds, lon, lat)
            first = first[cnt >= 1]              # events that lie in no tile (beyond the latitude limit) are returned as "no match"
            if numpy.asarray(idx).shape != first.shape or not numpy.array_equal(numpy.asarray(idx), first):
                ctx.violate("events of the refining catalog are not located in their containing cells", rc, observed=numpy.asarray(idx)[:8],
                            expected=first[:8], tags=dict(tags, clause="lookup-array"))
        depths = {len(q) for q in reg.quadkeys}
        ctx.nt_bulk(digest(("cat", kind, threshold, zoom, seed)), nt if (len(depths) >= 2 or kind == "edges") else nt // 4)


def random_cut(rng, maxdepth, p_split=0.6, keep=1.0):
    out = []

    def rec(q):
        if len(q) < maxdepth and (len(q) < 1 or rng.uniform() < p_split):
            for d in "0123":
                rec(q + d)
        elif rng.uniform() < keep:
            out.append(q)
    for d in "0123":
        rec(d)
    return out


def ex_quadkeys(ctx, seed, maxdepth=5, keep=0.7, shuffle=True):
    from csep.core.regions import QuadtreeGrid2D
    rng = numpy.random.default_rng([seed, 18])
    qk = random_cut(rng, maxdepth, keep=keep)
    if not qk:
        return
    if shuffle:
        qk = [qk[i] for i in rng.permutation(len(qk))]
    rc = {"exec": "quadkeys", "args": {"seed": seed, "maxdepth": maxdepth, "keep": keep, "shuffle": shuffle}}
    ctx.current_case = rc
    tags = {"ctor": "from_quadkeys", "covering": keep >= 1.0, "shuffled": shuffle}
    ok, reg, tb = ctx.call(QuadtreeGrid2D.from_quadkeys, qk)
    if not ok:
        ctx.violate("from_quadkeys raised", rc, observed=repr(reg), tb=tb, tags=tags)
        return
    if check_grid(ctx, reg, rc, tags, tiling=(keep >= 1.0)):
        nt = check_lookup(ctx, reg, rc, tags, rng, tiling=(keep >= 1.0))
        ctx.nt_bulk(digest(("qk", seed, maxdepth, keep, shuffle)), nt)


def ex_california(ctx, seed=0):
    from csep.core import regions
    rc = {"exec": "california", "args": {"seed": seed}}
    ctx.current_case = rc
    tags = {"ctor": "california_quadtree_region"}
    ok, reg, tb = ctx.call(regions.california_quadtree_region)
    if not ok:
        ctx.violate("california_quadtree_region raised", rc, observed=repr(reg), tb=tb, tags=tags)
        return
    reg.quadkeys = [str(q) for q in reg.quadkeys]
    if check_grid(ctx, reg, rc, tags, tiling=False):
        nt = check_lookup(ctx, reg, rc, tags, numpy.random.default_rng([seed, 19]), tiling=False)
        ctx.nt_bulk(digest(("ca", seed)), nt)


EXECUTORS = {"single": ex_single, "catalog": ex_catalog, "quadkeys": ex_quadkeys, "california": ex_california}


def run(ctx):
    thorough = ctx.tier == "thorough"
    ci = 0
    for z in range(1, 8 + 1):          # zoom 8 = 65536 cells (array lookups that work through the cells in blocks see several blocks)
        ci += 1
        if ctx.mine(ci):
            ex_single(ctx, z, seed=ctx.seed)
            ctx.sample({"ctor": "from_single_resolution", "zoom": z, "cells": 4 ** z})
    n = 24000 if thorough else 120
    for j in range(n):
        ci += 1
        if not ctx.mine(ci):
            continue
        r = ctx.rng("c17", j)
        kind = ["cluster", "uniform", "point", "edges", "edges"][j % 5]
        thr = int(r.choice([1, 2, 10, 100]))
        zoom = int(r.integers(1, 11 if thorough else 8))
        if j % 10 == 7:
            kind, thr, zoom = "deepcluster", int(r.choice([1, 2, 5])), int(r.integers(12, 20))
        elif j % 10 == 3:
            kind = "polar"
        elif j % 10 == 5:
            thr, zoom = 0, min(zoom, 6)          # threshold 0: every cell that holds an event is refined down to the maximum zoom
        elif j % 10 == 9:
            kind, thr = "hairline", int(r.choice([0, 1, 2, 3, 10]))
        ex_catalog(ctx, kind, thr, zoom, seed=int(r.integers(0, 10 ** 9)))
        if j % 30 == 0:
            ctx.sample({"ctor": "from_catalog", "kind": kind, "threshold": thr, "max_zoom": zoom})
    for j in range(12000 if thorough else 60):
        ci += 1
        if not ctx.mine(ci):
            continue
        r = ctx.rng("c17q", j)
        ex_quadkeys(ctx, int(r.integers(0, 10 ** 9)), maxdepth=int(r.integers(1, 7 if thorough else 6)), keep=float(r.choice([1.0, 0.7, 0.3])),
                    shuffle=bool(j % 2))
    ci += 1
    if ctx.mine(ci):
        ex_california(ctx, seed=ctx.seed)
