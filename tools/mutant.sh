#!/bin/bash
# tools/mutant.sh <patch> <Cxx> [tier] : apply patch to a scratch copy of /repo (outside /repo,/verif), run the check
# against it (VERIF_REPO), print verdict, remove the copy.  Exit 0 iff the check reported a VIOLATION (exit 1).
P=$(realpath "$1"); C=$2; T=${3:-quick}
D=$(mktemp -d /var/tmp/pycsep-mut.XXXXXX)
trap 'rm -rf "$D"' EXIT
rsync -a --exclude .git --exclude __pycache__ /repo/ "$D/"
( cd "$D" && patch -p1 -s < "$P" ) || { echo "PATCH-FAILED $P"; exit 3; }
cd "$(dirname "$0")/.."
VERIF_REPO="$D" ./check "$C" "$T" > "$D/out.txt" 2>&1; rc=$?
grep -E "VIOLATION|INCONCLUSIVE|KNOWN-FINDING|held" "$D/out.txt" | cut -c1-400 | head -${MUT_LINES:-6}
echo "mutant $(basename "$P") on $C $T -> exit $rc"
[ $rc -eq 1 ]
