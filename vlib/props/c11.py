"""C11 - gridded forecast files: rate lookup matches the file; scaling absolute and linear."""
import datetime
import itertools
import os
import tempfile
from decimal import Decimal
from fractions import Fraction

import numpy

from .. import monitor
from ..core import digest, close, scratch_dir
from . import c01, c15, c17

UTC = datetime.timezone.utc
META = {
    "title": "Gridded forecast files: rate lookup, magnitudes, flags, totals, scaling",
    "level": "exploration",
    "rule": ("forecast files written by a writer model over C01 decimal lattices (anchors negative/positive, dh down to 0.025, 1xn / nx1 / single "
             "row), cells in standard or permuted order with magnitude fastest, 1..20 magnitude bins, flags 0/1, lon/lat column order with "
             "swap_latlon, rates printed with repr or %.6e; quadtree layouts through quadtree_ascii_loader / quadtree_csv_loader + from_custom. "
             "Probes per row: the row's lower corner exactly as printed (hard), box centre, +k ulps above the lower faces, magnitudes on the lower "
             "edge / inside / above the last edge. Histories: all sequences of <= 4 operations over {scale(2), scale(0.5), scale(1), "
             "scale_to_test_date(mid|before|after)} (exhaustive) + random longer. Non-trivial: file with >= 2 cells and >= 2 magnitude bins probed on a "
             "box corner, or a flag-0 cell, or a non-standard order; histories with >= 2 scaling operations; distinct = digest(file text / history)."),
    "assumptions": ["rates compared exactly with float(printed string)", "a no-op scale_to_test_date (date outside the forecast window) may either keep the previous factor "
                    "(code) or reset to unity (docstring): both accepted", "points inside a round-off band below a face are not probed here (C01/C02)"],
    "deciding": ["lookup:get_rates", "file:magnitudes", "file:total", "history:scaling", "invariant:data=_data*_scale"],
    "exhaustive_tiers": {"quick": {"scaling histories of length <= 3 over 10 operations (7 scalar incl. a test date exactly at the forecast end, 3 array-valued factors)": True}, "thorough": {"scaling histories of length <= 4 over 10 operations (7 scalar incl. a test date exactly at the forecast end, 3 array-valued factors)": True}},
}
META["added"] = 'Added: write_dat round trip, quadtree loaders, array-valued scale factors in the exhaustive histories, event_count must be the scalar total, anchors whose scaled value is one ulp below an integer. magnitudes just below a magnitude edge. files with every cell flagged 0. test date exactly at the forecast end. a sibling file on the same cells loaded in between.'
MANIFEST = {
    "technique": "invariant on live GriddedDataSet objects (data == _data*_scale, _data digest unchanged) evaluated after every public method + boundary recorder on the loaders and get_rates against a per-row writer model + sequential history checker for scale / scale_to_test_date (exhaustive short histories)",
    "level_text": "Generated forecast files (Cartesian and quadtree layouts) are loaded by the real loaders; for every row the rate returned at the row's lower corner (exactly the printed numbers), centre and just-above-face points must be that row's rate, flag-0 cells must lie outside the region, magnitudes must be the file's lower edges in order and totals/marginals must add up; all scaling histories up to length 3 (quick) / 4 (thorough) are enumerated against a two-line reference model while an invariant watches data == _data*_scale and the loaded array's digest.",
    "level_note": "Trusted: writer model; exact float(repr) round trip. Shipped example forecasts are emptied in this sandbox; XML/HDF5 loaders are NotImplemented.",
}
WATCHDOG_S = {"quick": 900, "thorough": 5400}
OPSET = ["scale(2)", "scale(0.5)", "scale(1)", "std(mid)", "std(before)", "std(after)", "std(end)"]
ARRAY_OPS = ["scale(percell)", "scale(permag)", "scale(full)"]      # scale() is documented for "int, float, or ndarray"


def shards(tier):
    return 4 if tier == "quick" else 16


def install(ctx):
    import csep.core.forecasts as fo

    def inv(name):
        def post(ctx, args, kwargs, result, exc, caller):
            self = args[0]
            dg = getattr(self, "_verif_digest", None)
            if dg is None or exc is not None:
                return
            if self._data.tobytes() != dg:
                ctx.violate("the loaded rate array was modified by %s" % name, {"exec": "noop", "args": {}}, tags={"clause": "raw-data-mutated", "api": name})
            if not numpy.array_equal(numpy.asarray(self.data), numpy.asarray(self._data) * self._scale):
                ctx.violate("data != _data * _scale after %s" % name, {"exec": "noop", "args": {}}, tags={"clause": "invariant", "api": name})
        return post
    for cls, names in ((fo.GriddedDataSet, ["sum", "scale"]), (fo.MarkedGriddedDataSet, ["spatial_counts", "magnitude_counts", "get_magnitude_index"]),
                       (fo.GriddedForecast, ["scale_to_test_date", "target_event_rates", "get_rates"])):
        for nm in names:
            monitor.wrap_method(ctx, cls, nm, inv(nm), mon_name="invariant:data=_data*_scale")


def gen_file_case(r):
    lat = c01.gen_lattice(r, force=int(r.integers(0, 8)))
    lat["ctor"] = "from_origins"
    nm = int(r.choice([1, 2, 5, 12, 20]))
    m0, dm = str(r.choice(["4.95", "5.0", "3.95", "2.5"])), str(r.choice(["0.1", "0.2", "0.5"]))
    ncell = len(lat["cells"])
    rates = (10 ** r.uniform(-6, 1, (ncell, nm))).tolist()
    return {"lat": lat, "m0": m0, "dm": dm, "nm": nm, "rates": rates, "swap": bool(r.uniform() < 0.3), "fmt": str(r.choice(["repr", "%.6e"])),
            "z": [0.0, 30.0]}


def write_dat(path, case):
    lat = case["lat"]
    ax, ay, dh = Decimal(lat["ax"]), Decimal(lat["ay"]), Decimal(lat["dh"])
    m0, dm = Decimal(case["m0"]), Decimal(case["dm"])
    flags = lat.get("flags") or [1] * len(lat["cells"])
    rows = []
    with open(path, "w") as f:
        for ci, (i, j) in enumerate(lat["cells"]):
            x0, x1 = ax + i * dh, ax + (i + 1) * dh
            y0, y1 = ay + j * dh, ay + (j + 1) * dh
            for k in range(case["nm"]):
                ma, mb = m0 + k * dm, m0 + (k + 1) * dm
                rate = case["rates"][ci][k]
                rs = repr(float(rate)) if case["fmt"] == "repr" else "%.6e" % rate
                cols = [str(y0), str(y1), str(x0), str(x1)] if case["swap"] else [str(x0), str(x1), str(y0), str(y1)]
                f.write("\t".join(cols + [repr(case["z"][0]), repr(case["z"][1]), str(ma), str(mb), rs, str(flags[ci])]) + "\n")
                rows.append({"cell": ci, "k": k, "x0": float(x0), "y0": float(y0), "x1": float(x1), "y1": float(y1), "m": float(ma), "rate": float(rs),
                             "flag": flags[ci]})
    return rows


def ex_file(ctx, case, seed=0):
    import csep
    tmp = scratch_dir("c11-")
    path = os.path.join(tmp, "forecast.dat")
    rc = {"exec": "file", "args": {"case": case, "seed": seed}}
    ctx.current_case = rc
    lat = case["lat"]
    tags = {"layout": "cartesian", "swap": case["swap"], "flags": lat.get("flags") is not None, "single_row_file": len(lat["cells"]) * case["nm"] == 1,
            "single_row_or_column": bool(lat["nx"] == 1 or lat["ny"] == 1), "dh": lat["dh"], "n_mag": case["nm"]}
    try:
        rows = write_dat(path, case)
        ok, fore, tb = ctx.call(csep.load_gridded_forecast, path, swap_latlon=case["swap"])
        ctx.count(1)
        if not ok:
            ctx.violate("loading a well-formed forecast file raised", rc, observed=repr(fore), tb=tb, tags=dict(tags, clause="raised", exc=type(fore).__name__))
            return
        fore._verif_digest = fore._data.tobytes()
        if seed % 3 == 1:
            # history: ANOTHER forecast file on the same cells (same flags, same column order) but with other magnitude bins is loaded before the
            # first forecast is queried - the first forecast must keep answering from its own file
            sib = dict(case, m0=str(Decimal(case["m0"]) + Decimal("0.35")), dm="0.4", nm=case["nm"] + 1,
                       rates=[list(r_) + [0.123] for r_ in case["rates"]])
            write_dat(os.path.join(tmp, "sibling.dat"), sib)
            ctx.call(csep.load_gridded_forecast, os.path.join(tmp, "sibling.dat"), swap_latlon=case["swap"])
            tags = dict(tags, history="sibling file on the same cells loaded in between")
        ncorner = check_loaded(ctx, rc, tags, fore, rows, case, numpy.random.default_rng([seed, 11]))
        with open(path, "rb") as f:
            dg = digest(f.read())
        if (len(lat["cells"]) >= 2 and case["nm"] >= 2) or tags["flags"]:
            ctx.nt_bulk(dg, max(1, ncorner or 0))
    finally:
        for fn in os.listdir(tmp):
            os.remove(os.path.join(tmp, fn))
        os.rmdir(tmp)


def check_loaded(ctx, rc, tags, fore, rows, case, rng):
    m_edges = numpy.array(sorted({r_["m"] for r_ in rows}))
    first_app = []
    for r_ in rows:
        if r_["m"] not in first_app:
            first_app.append(r_["m"])
    ctx.mon("file:magnitudes", 1)
    if list(map(float, fore.magnitudes)) != first_app:
        ctx.violate("forecast magnitudes are not the file's lower magnitude edges in order", rc, observed=list(map(float, numpy.asarray(fore.magnitudes)))[:6],
                    expected=first_app[:6], tags=dict(tags, clause="magnitudes"))
        return
    any_flag0 = any(r_["flag"] == 0 for r_ in rows)
    ctx.mon("file:total", 1)
    tot = float(numpy.sum([r_["rate"] for r_ in rows]))
    if not any_flag0:
        if not close(float(fore.sum()), tot, rel=1e-12):
            ctx.violate("total expected count != sum of the rate column", rc, observed=float(fore.sum()), expected=tot, tags=dict(tags, clause="total"))
    sc, mc = numpy.asarray(fore.spatial_counts()), numpy.asarray(fore.magnitude_counts())
    if not (close(float(sc.sum()), float(fore.sum()), rel=1e-12) and close(float(mc.sum()), float(fore.sum()), rel=1e-12)):
        ctx.violate("spatial / magnitude marginals do not sum to the total", rc, observed=[float(sc.sum()), float(mc.sum())], expected=float(fore.sum()),
                    tags=dict(tags, clause="marginals"))
    # ---- rate lookup per row
    sel = rng.permutation(len(rows))[:400]
    dm = float(case["dm"])
    ncorner = 2 * len(sel)
    for q in sel.tolist():
        r_ = rows[q]
        dx, dy = r_["x1"] - r_["x0"], r_["y1"] - r_["y0"]
        pts = [("lower-corner", r_["x0"], r_["y0"], r_["m"]), ("centre", r_["x0"] + 0.5 * dx, r_["y0"] + 0.5 * dy, r_["m"] + 0.5 * dm),
               ("corner+ulps", float(numpy.nextafter(r_["x0"], 1e9)), float(numpy.nextafter(r_["y0"], 1e9)), float(numpy.nextafter(r_["m"], 1e9)))]
        if r_["k"] < case["nm"] - 1:
            # a magnitude a few 1e-6 (and 1e-9) below the row's UPPER magnitude edge: far outside the float round-off tolerance, still this row's bin
            pts.append(("below-upper-mag-edge", r_["x0"] + 0.4 * dx, r_["y0"] + 0.4 * dy, r_["m"] + dm - (2e-6 if q % 2 else 1e-9)))
        if r_["k"] == 0:
            pts.append(("below-lowest-mag-edge", r_["x0"] + 0.4 * dx, r_["y0"] + 0.4 * dy, r_["m"] - 3e-6))
        if r_["k"] == case["nm"] - 1:
            pts.append(("above-last-edge", r_["x0"] + 0.3 * dx, r_["y0"] + 0.6 * dy, r_["m"] + 3.7 * dm))
        for lab, x, y, m in pts:
            ok, val, tb = ctx.call(fore.get_rates, numpy.array([x]), numpy.array([y]), numpy.array([m]))
            ctx.mon("lookup:get_rates", 1)
            ctx.count(1)
            t2 = dict(tags, probe=lab, flag0=r_["flag"] == 0)
            if lab == "below-lowest-mag-edge":
                if ok and r_["flag"] != 0:
                    ctx.violate("a magnitude below the lowest magnitude edge answers a rate lookup", rc, observed={"point": [x, y, m], "rate": float(numpy.asarray(val).ravel()[0])},
                                expected="ValueError", tags=dict(t2, clause="below-lowest-magnitude"))
                continue
            if r_["flag"] == 0:
                if ok:
                    ctx.violate("a cell flagged 0 in the file answers a rate lookup", rc, observed=float(numpy.asarray(val).ravel()[0]), expected="outside the region",
                                tags=dict(t2, clause="flag0"))
                continue
            if not ok:
                ctx.violate("rate lookup inside a row's box raised", rc, observed={"point": [x, y, m], "exc": repr(val)}, expected=r_["rate"], tags=dict(t2, clause="lookup-raised"))
            elif float(numpy.asarray(val).ravel()[0]) != r_["rate"]:
                ctx.violate("rate returned for a point inside a row's box is not that row's rate", rc,
                            observed={"point": [x, y, m], "rate": float(numpy.asarray(val).ravel()[0])}, expected={"row": [r_["x0"], r_["y0"], r_["m"]], "rate": r_["rate"]},
                            tags=dict(t2, clause="lookup-value"))
    if rows and ctx.evaluations % 5 == 0:
        r0 = rows[int(sel[0])]
        ok0, v0, _tb = ctx.call(fore.get_rates, numpy.array([r0["x0"]]), numpy.array([r0["y0"]]), numpy.array([r0["m"]]))
        ctx.sample({"file_row(lon0,lat0,mag0,rate,flag)": [r0["x0"], r0["y0"], r0["m"], r0["rate"], r0["flag"]], "get_rates_at_lower_corner": float(numpy.asarray(v0).ravel()[0]) if ok0 else repr(v0),
                    "n_rows": len(rows), "magnitudes": list(map(float, fore.magnitudes))[:5], "region_dh": float(fore.region.dh)})
    # vectorised lookup over all unflagged rows' lower corners
    good = [r_ for r_ in rows if r_["flag"] == 1]
    if good:
        ok, val, tb = ctx.call(fore.get_rates, numpy.array([g["x0"] for g in good]), numpy.array([g["y0"] for g in good]), numpy.array([g["m"] for g in good]))
        ctx.mon("lookup:get_rates", 1)
        want = numpy.array([g["rate"] for g in good])
        if not ok or not numpy.array_equal(numpy.asarray(val, dtype=float), want):
            nbad = int(numpy.sum(numpy.asarray(val, dtype=float) != want)) if ok else -1
            ctx.violate("batch lookup of all rows' lower corners does not return the rate column", rc, observed=repr(val)[:160] if not ok else {"rows_wrong": nbad, "rows": len(good)},
                        tags=dict(tags, clause="lookup-batch"))
    return ncorner


def decyear(d):
    return c15.decyear_ref(d)


def ex_history(ctx, ops, seed=0):
    """Scaling histories on a small in-memory forecast with start/end times."""
    from .. import fixtures
    r = numpy.random.default_rng([seed, 12])
    mags = fixtures.mag_bins("4.95", "0.1", 3)
    reg = fixtures.region(2, 2, 0.1, 10.0, 20.0, magnitudes=mags)
    data = 10 ** r.uniform(-3, 1, (4, 3))
    start, end = datetime.datetime(2010, 1, 1, tzinfo=UTC), datetime.datetime(2012, 1, 1, tzinfo=UTC)
    fore = fixtures.gridded_forecast(data.copy(), reg, mags, start=start, end=end)
    fore._verif_digest = fore._data.tobytes()
    rc = {"exec": "history", "args": {"ops": list(ops), "seed": seed}}
    ctx.current_case = rc
    admissible = {1.0}
    ctx.count(1)
    mid = datetime.datetime(2010, 9, 17, tzinfo=UTC)
    days = (end - start).days
    org = numpy.asarray(reg.origins())

    def queries(step, op, got):
        """Read-only queries between the scaling operations: rate lookups for 1, n_mag (not in bin order) and 5 points and the per-event target rates
        (as they are, and per day); they return the file's rate x the factor in force and change nothing."""
        qr = numpy.random.default_rng([seed, 15, step + 1])
        for npts in (1, data.shape[1], 5):
            cells = qr.integers(0, data.shape[0], npts)
            kb = qr.permutation(data.shape[1])[:npts] if npts <= data.shape[1] else qr.integers(0, data.shape[1], npts)
            if npts == data.shape[1] and numpy.array_equal(kb, numpy.arange(npts)):
                kb = kb[::-1]
            lo, la, mg = org[cells, 0] + 0.05, org[cells, 1] + 0.05, mags[kb] + 0.03
            want = got[cells, kb]
            ok, rates, tb = ctx.call(fore.get_rates, lo, la, mg)
            ctx.mon("history:lookup-between-scalings", 1)
            if not ok or numpy.shape(rates) != want.shape or not numpy.allclose(numpy.asarray(rates, dtype=float), want, rtol=1e-12, atol=0):
                ctx.violate("get_rates != rate of the containing bin x factor in force", rc, observed=repr(rates)[:200], expected=want,
                            tags={"clause": "lookup-after-scaling", "op": op, "n_points": npts, "array_factor": bool(op in ARRAY_OPS)})
                return False
            cat = fixtures.catalog(lo, la, mg, region=reg)
            for per_day in (False, True) if (seed + step + npts) % 2 else (True, False):
                ok, out, tb = ctx.call(fore.target_event_rates, cat, scale=per_day)
                div = float(days) if per_day else 1.0
                good = ok and numpy.shape(out[0]) == want.shape and numpy.allclose(numpy.asarray(out[0], dtype=float), want / div, rtol=1e-12, atol=0) \
                    and numpy.ndim(out[1]) == 0 and close(float(out[1]), float(numpy.sum(got)) / div, rel=1e-12)
                if not good:
                    ctx.violate("target_event_rates != (rates of the events' bins, total) x factor in force [/ days]", rc, observed=repr(out)[:200],
                                expected=[want / div, float(numpy.sum(got)) / div], tags={"clause": "target-rates", "op": op, "per_day": per_day})
                    return False
        again = numpy.asarray(fore.data, dtype=float)
        if not numpy.array_equal(again, got):
            ctx.violate("a read-only query (get_rates / target_event_rates) changed the forecast's rates", rc, observed={"ratio": float(numpy.median(again / got))},
                        expected={"ratio": 1.0}, tags={"clause": "query-mutates", "op": op, "step": step})
            return False
        return True
    if seed % 2 == 0 and not queries(-1, "-", numpy.asarray(fore.data, dtype=float)):
        return
    for step, op in enumerate(ops):
        if op in ARRAY_OPS:
            shp = {"percell": (data.shape[0], 1), "permag": (data.shape[1],), "full": data.shape}[op[6:-1]]
            v = numpy.random.default_rng([seed, 14, step]).uniform(0.2, 3.0, shp)
            ok, _, tb = ctx.call(fore.scale, v)
            admissible = [v]
        elif op.startswith("scale("):
            v = float(op[6:-1])
            ok, _, tb = ctx.call(fore.scale, v)
            admissible = {v}
        else:
            t = {"mid": mid, "before": start - datetime.timedelta(days=3), "after": end + datetime.timedelta(days=3), "end": end}[op[4:-1]]
            ok, _, tb = ctx.call(fore.scale_to_test_date, t)
            if op == "std(mid)":
                fr = (decyear(t + datetime.timedelta(days=1)) - decyear(start)) / (decyear(end) - decyear(start))
                admissible = {float(fr)}
            else:
                admissible = list(admissible) + [1.0]
        if not ok:
            ctx.violate("scaling operation raised", rc, observed=repr(_), tb=tb, tags={"clause": "raised", "op": op})
            return
        ctx.mon("history:scaling", 1)
        got = numpy.asarray(fore.data, dtype=float)
        if not any(numpy.allclose(got, data * a, rtol=1e-9, atol=0) for a in admissible):
            ratio = float(numpy.median(got / data))
            ctx.violate("after a sequence of scale / scale_to_test_date calls data != original x last factor", rc, observed={"ratio": ratio},
                        expected={"admissible_factors": [a if numpy.ndim(a) == 0 else "array%s" % (numpy.shape(a),) for a in admissible]},
                        tags={"clause": "scaling", "op": op, "step": step,
                              "cumulative": bool(step and not any(numpy.ndim(a) == 0 and abs(ratio - a) < 1e-9 for a in admissible))})
            return
        tot = fore.sum()
        if numpy.ndim(tot) != 0:
            ctx.violate("the forecast's total is not a scalar after scaling", rc, observed=numpy.shape(tot), tags={"clause": "marginals", "op": op})
            return
        ok_ec, ec, _tb = ctx.call(lambda: fore.event_count)
        if not ok_ec or numpy.ndim(ec) != 0 or not close(float(ec), float(numpy.sum(got)), rel=1e-12):
            ctx.violate("event_count != total of the scaled rates", rc, observed=repr(ec)[:80], expected=float(numpy.sum(got)), tags={"clause": "marginals", "op": op})
            return
        s_ok = close(float(fore.sum()), float(numpy.sum(got)), rel=1e-12) and close(float(numpy.sum(fore.spatial_counts())), float(fore.sum()), rel=1e-12) \
            and close(float(numpy.sum(fore.magnitude_counts())), float(fore.sum()), rel=1e-12)
        if not s_ok:
            ctx.violate("marginals do not sum to the total after scaling", rc, tags={"clause": "marginals", "op": op})
        if (seed + step) % 2 == 0 and not queries(step, op, got):
            return
    if len(ops) >= 2:
        ctx.nt(digest(("hist", list(ops), seed)))


def ex_quadtree(ctx, kind, seed=0):
    import csep
    from csep.core.forecasts import GriddedForecast
    from csep.utils import readers
    r = numpy.random.default_rng([seed, 13])
    qk = c17.random_cut(r, int(r.integers(1, 4)), keep=float(r.choice([1.0, 0.6])))
    if not qk:
        return
    qk = [qk[i] for i in r.permutation(len(qk))]
    nm = int(r.choice([1, 2, 6]))
    m0, dm = Decimal("4.95"), Decimal("0.1")
    rates = 10 ** r.uniform(-5, 1, (len(qk), nm))
    tmp = scratch_dir("c11q-")
    rc = {"exec": "quadtree", "args": {"kind": kind, "seed": seed}}
    ctx.current_case = rc
    tags = {"layout": "quadtree-" + kind, "n_mag": nm, "single_row_file": len(qk) * nm == 1}
    try:
        if kind == "ascii":
            path = os.path.join(tmp, "f.txt")
            with open(path, "w") as f:
                for q, row in zip(qk, rates):
                    b = c17.tile_bounds(q)
                    for k in range(nm):
                        f.write("%s\t%r\t%r\t%r\t%r\t0.0\t30.0\t%s\t%s\t%r\n" % (q, b[0], b[2], b[1], b[3], m0 + k * dm, m0 + (k + 1) * dm, float(row[k])))
            loader = readers.quadtree_ascii_loader
        else:
            path = os.path.join(tmp, "f.csv")
            with open(path, "w") as f:
                f.write("quadkey,depth_min,depth_max," + ",".join(str(m0 + k * dm) for k in range(nm)) + "\n")
                for q, row in zip(qk, rates):
                    f.write(q + ",0.0,30.0," + ",".join(repr(float(v)) for v in row) + "\n")
            loader = readers.quadtree_csv_loader
        ok, fore, tb = ctx.call(GriddedForecast.from_custom, loader, func_args=(path,))
        ctx.count(1)
        if not ok:
            ctx.violate("loading a well-formed quadtree forecast file raised", rc, observed=repr(fore), tb=tb, tags=dict(tags, clause="raised", exc=type(fore).__name__))
            return
        fore._verif_digest = fore._data.tobytes()
        ctx.mon("file:magnitudes", 1)
        want_m = [float(m0 + k * dm) for k in range(nm)]
        try:
            got_m = [float(x) for x in fore.magnitudes]
        except Exception:  # noqa
            got_m = None
        if got_m != want_m or not all(isinstance(x, (float, numpy.floating)) for x in numpy.asarray(fore.magnitudes).tolist()):
            ctx.violate("forecast magnitudes are not the file's lower magnitude edges (as numbers)", rc, observed=repr(numpy.asarray(fore.magnitudes)[:4]), expected=want_m[:4],
                        tags=dict(tags, clause="magnitudes"))
        b = numpy.array([c17.tile_bounds(q) for q in qk])
        import mercantile
        for i in r.permutation(len(qk))[:60].tolist():
            mb = mercantile.bounds(mercantile.quadkey_to_tile(qk[i]))
            for lab, x, y in (("lower-corner", mb.west, mb.south), ("centre", (mb.west + mb.east) / 2, (mb.south + mb.north) / 2)):
                for k in sorted({0, nm - 1}):
                    m = float(m0 + k * dm) + (0.0 if lab == "lower-corner" else 0.03)
                    ok, val, tb = ctx.call(fore.get_rates, numpy.array([x]), numpy.array([y]), numpy.array([m]))
                    ctx.mon("lookup:get_rates", 1)
                    ctx.count(1)
                    if not ok:
                        ctx.violate("rate lookup inside a row's box raised", rc, observed={"point": [x, y, m], "exc": repr(val)}, tags=dict(tags, clause="lookup-raised", probe=lab,
                                                                                                                                        exc=type(val).__name__))
                        return
                    if float(numpy.asarray(val).ravel()[0]) != float(rates[i][k]):
                        ctx.violate("rate returned for a point inside a row's box is not that row's rate", rc, observed=float(numpy.asarray(val).ravel()[0]), expected=float(rates[i][k]),
                                    tags=dict(tags, clause="lookup-value", probe=lab))
                        return
        if not close(float(fore.sum()), float(rates.sum()), rel=1e-12):
            ctx.violate("total expected count != sum of the rate column", rc, observed=float(fore.sum()), expected=float(rates.sum()), tags=dict(tags, clause="total"))
        ctx.nt(digest(("q", kind, seed)))
    finally:
        for fn in os.listdir(tmp):
            os.remove(os.path.join(tmp, fn))
        os.rmdir(tmp)


def ex_noop(ctx):
    pass


EXECUTORS = {"file": ex_file, "history": ex_history, "quadtree": ex_quadtree, "noop": ex_noop}


def run(ctx):
    install(ctx)
    thorough = ctx.tier == "thorough"
    ci = 0
    for L in range(1, (4 if thorough else 3) + 1):
        for ops in itertools.product(OPSET + ARRAY_OPS, repeat=L):
            ci += 1
            if ctx.mine(ci):
                ex_history(ctx, list(ops), seed=ci % 5)
    for j in range((8000 if thorough else 60) // ctx.nshards):
        r = ctx.rng("c11h", j)
        ex_history(ctx, [(OPSET + ARRAY_OPS)[int(k)] for k in r.integers(0, 10, int(r.integers(5, 12)))], seed=j)
    n = (40000 if thorough else 240) // ctx.nshards
    for j in range(n):
        r = ctx.rng("c11", j)
        case = gen_file_case(r)
        if j % 12 == 0:      # single-row file: one cell, one magnitude bin
            case["lat"].update({"nx": 1, "ny": 1, "cells": [(0, 0)], "flags": None})
            case["nm"] = 1
            case["rates"] = [[0.37]]
        elif j % 17 == 3:
            case["lat"]["flags"] = [0] * len(case["lat"]["cells"])          # every cell flagged 0: nothing of the file lies inside the region
        ex_file(ctx, case, seed=j)
        if j % 3 == 0:
            ex_quadtree(ctx, "ascii" if j % 2 else "csv", seed=j + 1000 * ctx.shard)
        if j % 40 == 0:
            ctx.sample({"lattice": {k: case["lat"][k] for k in ("ax", "ay", "dh", "nx", "ny")}, "cells": len(case["lat"]["cells"]), "n_mag": case["nm"], "swap_latlon": case["swap"],
                        "flags": case["lat"].get("flags") is not None, "rate_format": case["fmt"]})
