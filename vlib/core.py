"""Core of the runtime-monitoring harness: context, ledger, verdicts, evidence, sharding.

Every property module (vlib/props/cNN.py) exposes

    META      dict(title, rule, level_text, assumptions, deciding=[monitor names])
    shards(tier) -> int
    run(ctx)                      drive the workload of shard ctx.shard / ctx.nshards
    EXECUTORS {name: fn(ctx, **case_args)}   used by run() *and* by --replay

A case is a JSON-able dict {"exec": name, "args": {...}}.  Violations carry the full case so that
``./check Cxx --replay file`` re-executes exactly that case against the current tree.
"""
import hashlib
import json
import math
import os
import sys
import time
import traceback

import numpy

VERIF_DIR = os.path.dirname(os.path.dirname(os.path.abspath(__file__)))
REPO = os.path.abspath(os.environ.get("VERIF_REPO", "/repo"))


def setup_repo_import():
    """Import csep from $VERIF_REPO (default /repo): the current working tree, nothing cached."""
    sys.dont_write_bytecode = True
    if REPO in sys.path:
        sys.path.remove(REPO)
    sys.path.insert(0, REPO)
    import csep  # noqa
    here = os.path.abspath(csep.__file__)
    if not here.startswith(REPO + os.sep):
        raise RuntimeError("csep imported from %s, expected under %s" % (here, REPO))
    return csep


# ------------------------------------------------------------------------------------------
# JSON helpers


def jsonable(o, depth=0):
    if depth > 12:
        return repr(o)
    if o is None or isinstance(o, (bool, str)):
        return o
    if isinstance(o, (int,)):
        return int(o)
    if isinstance(o, float):
        return o
    if isinstance(o, numpy.generic):
        if isinstance(o, numpy.bool_):
            return bool(o)
        if isinstance(o, numpy.integer):
            return int(o)
        if isinstance(o, numpy.floating):
            return float(o)
        if isinstance(o, (numpy.str_, numpy.bytes_)):
            return str(o)
        return repr(o)
    if isinstance(o, numpy.ma.MaskedArray):
        return {"__masked__": True, "data": jsonable(numpy.asarray(o.data), depth + 1),
                "mask": jsonable(numpy.ma.getmaskarray(o), depth + 1)}
    if isinstance(o, numpy.ndarray):
        if o.dtype.names:
            return [jsonable(tuple(r), depth + 1) for r in o.tolist()]
        return jsonable(o.tolist(), depth + 1)
    if isinstance(o, bytes):
        return o.decode("latin-1")
    if isinstance(o, dict):
        return {str(k): jsonable(v, depth + 1) for k, v in o.items()}
    if isinstance(o, (list, tuple)):
        return [jsonable(v, depth + 1) for v in o]
    if isinstance(o, (set, frozenset)):
        return sorted((jsonable(v, depth + 1) for v in o), key=repr)
    return repr(o)


def digest(obj):
    """Stable 64-bit digest of a JSON-able object / bytes."""
    if isinstance(obj, bytes):
        b = obj
    elif isinstance(obj, str):
        b = obj.encode()
    else:
        b = json.dumps(jsonable(obj), sort_keys=True, default=repr).encode()
    return hashlib.blake2b(b, digest_size=8).hexdigest()


def same_float(a, b):
    """Equality by class for nan/inf, exact otherwise."""
    if a is None or b is None:
        return a is b
    a = float(a)
    b = float(b)
    if math.isnan(a) or math.isnan(b):
        return math.isnan(a) and math.isnan(b)
    return a == b


def close(a, b, rel=1e-9, abs_=0.0, scale=None):
    """|a-b| <= abs_ + rel*(1+max(|a|,|b|) or scale); nan==nan, inf==inf of same sign."""
    if a is None or b is None:
        return a is b
    a = float(a)
    b = float(b)
    if math.isnan(a) or math.isnan(b):
        return math.isnan(a) and math.isnan(b)
    if math.isinf(a) or math.isinf(b):
        return a == b
    s = scale if scale is not None else max(abs(a), abs(b))
    return abs(a - b) <= abs_ + rel * (1.0 + s)


# ------------------------------------------------------------------------------------------


class Ctx:
    """Per-shard context: counters, ledger of monitor evaluations, violations, samples."""

    MAX_VIOL = 200

    def __init__(self, prop, tier, seed, shard=0, nshards=1, replay=False):
        self.prop = prop
        self.tier = tier
        self.seed = int(seed)
        self.shard = shard
        self.nshards = nshards
        self.replay = replay
        self.evaluations = 0
        self.nontrivial = set()          # digests
        self.nontrivial_bulk = {}        # case digest -> count (distinct by construction)
        self.monitors = {}               # name -> {"evals": n, "by_caller": {mod: n}}
        self.violations = []
        self.n_violations = 0
        self.samples = []
        self.inconclusive = []
        self.extra = {}                  # free-form coverage counters
        self.t0 = time.time()
        self.current_case = None         # replayable case of the executor that is running (used by monitor-originated violations)

    # -- randomness -------------------------------------------------------------------------
    def rng(self, *stream):
        key = [self.seed, self.shard, self.nshards] + [int(hashlib.blake2b(str(s).encode(), digest_size=4).hexdigest(), 16)
                                                       if not isinstance(s, int) else s for s in stream]
        return numpy.random.default_rng(key)

    def mine(self, index):
        """Deterministic assignment of structured case #index to exactly one shard."""
        return index % self.nshards == self.shard

    # -- counting ---------------------------------------------------------------------------
    def count(self, n=1):
        self.evaluations += int(n)

    def nt(self, key):
        self.nontrivial.add(key if (isinstance(key, str) and len(key) == 16) else digest(key))

    def nt_bulk(self, case_key, n):
        if n <= 0:
            return
        k = case_key if (isinstance(case_key, str) and len(case_key) == 16) else digest(case_key)
        self.nontrivial_bulk[k] = max(self.nontrivial_bulk.get(k, 0), int(n))

    def mon(self, name, n=1, caller=None):
        m = self.monitors.setdefault(name, {"evals": 0, "by_caller": {}})
        m["evals"] += n
        if caller:
            m["by_caller"][caller] = m["by_caller"].get(caller, 0) + n

    def add(self, key, n=1):
        self.extra[key] = self.extra.get(key, 0) + n

    def note_set(self, key, item):
        s = self.extra.setdefault(key, [])
        if item not in s:
            s.append(item)

    def sample(self, obj, cap=6):
        """Reservoir sample of the cases actually explored (deterministic per shard)."""
        self._nsample = getattr(self, "_nsample", 0) + 1
        if len(self.samples) < cap:
            self.samples.append(jsonable(obj))
            return
        if not hasattr(self, "_srng"):
            self._srng = numpy.random.default_rng([self.seed, self.shard, 99])
        j = int(self._srng.integers(0, self._nsample))
        if j < cap:
            self.samples[j] = jsonable(obj)

    # -- verdicts ---------------------------------------------------------------------------
    def violate(self, clause, case, observed=None, expected=None, tags=None, tb=None, note=None):
        """Record a violation of this property. `case` = {"exec":..., "args":...} replayable."""
        self.n_violations += 1
        if isinstance(case, dict) and case.get("exec") == "noop" and self.current_case is not None:
            case = self.current_case     # a post-condition fired inside an executor: replay that executor's case
        if len(self.violations) >= self.MAX_VIOL:
            # keep counting per clause so nothing is silently lost
            self.add("violations_dropped_over_cap")
            # but always keep at least one example per (clause, tags) class
            key = (clause, json.dumps(jsonable(tags or {}), sort_keys=True))
            seen = getattr(self, "_seen_classes", None)
            if seen is None:
                seen = self._seen_classes = set((v["clause"], json.dumps(v["tags"], sort_keys=True))
                                                for v in self.violations)
            if key in seen:
                return
            seen.add(key)
        v = {"property": self.prop, "clause": clause, "case": jsonable(case),
             "observed": jsonable(observed), "expected": jsonable(expected),
             "tags": jsonable(tags or {}), "seed": self.seed, "shard": self.shard,
             "nshards": self.nshards, "tier": self.tier}
        if tb:
            v["traceback"] = tb
        if note:
            v["note"] = note
        self.violations.append(v)

    def inconc(self, reason):
        if reason not in self.inconclusive:
            self.inconclusive.append(reason)

    # -- library calls ----------------------------------------------------------------------
    @staticmethod
    def call(fn, *a, **k):
        """Call library code; returns (ok, value|exception, traceback|None)."""
        try:
            return True, fn(*a, **k), None
        except Exception as e:  # noqa
            return False, e, traceback.format_exc(limit=12)

    def partial(self):
        return {"evaluations": self.evaluations, "nontrivial": sorted(self.nontrivial),
                "nontrivial_bulk": self.nontrivial_bulk, "monitors": self.monitors,
                "violations": self.violations, "n_violations": self.n_violations,
                "samples": self.samples,
                "inconclusive": self.inconclusive, "extra": jsonable(self.extra),
                "wall_s": time.time() - self.t0, "shard": self.shard}


def merge_extra(a, b):
    for k, v in b.items():
        if k not in a:
            a[k] = v
        elif isinstance(v, bool) or isinstance(a[k], bool):
            a[k] = bool(a[k]) or bool(v)
        elif isinstance(v, (int, float)) and isinstance(a[k], (int, float)):
            if k.startswith("max_"):
                a[k] = max(a[k], v)
            elif k.startswith("min_"):
                a[k] = min(a[k], v)
            else:
                a[k] = a[k] + v
        elif isinstance(v, dict) and isinstance(a[k], dict):
            merge_extra(a[k], v)
        elif isinstance(v, list) and isinstance(a[k], list):
            for x in v:
                if x not in a[k]:
                    a[k].append(x)
    return a


def merge_partials(parts):
    out = {"evaluations": 0, "nontrivial": set(), "nontrivial_bulk": {}, "monitors": {},
           "violations": [], "n_violations": 0, "samples": [], "inconclusive": [], "extra": {},
           "shard_wall_s": []}
    for p in parts:
        out["evaluations"] += p["evaluations"]
        out["nontrivial"].update(p["nontrivial"])
        for k, n in p["nontrivial_bulk"].items():
            out["nontrivial_bulk"][k] = max(out["nontrivial_bulk"].get(k, 0), n)
        for name, m in p["monitors"].items():
            mm = out["monitors"].setdefault(name, {"evals": 0, "by_caller": {}})
            mm["evals"] += m["evals"]
            for c, n in m["by_caller"].items():
                mm["by_caller"][c] = mm["by_caller"].get(c, 0) + n
        out["violations"].extend(p["violations"])
        out["n_violations"] += p["n_violations"]
        for s in p["samples"]:
            if len(out["samples"]) < 8:
                out["samples"].append(s)
        for r in p["inconclusive"]:
            if r not in out["inconclusive"]:
                out["inconclusive"].append(r)
        merge_extra(out["extra"], p["extra"])
        out["shard_wall_s"].append(round(p["wall_s"], 2))
    return out


PROCESS_ZONES = ["UTC0", "JST-9", "EST5EDT,M3.2.0,M11.1.0", "NZST-12NZDT,M9.5.0,M4.1.0/3"]


def set_process_time_zone(ctx):
    """Configuration: the process' local time zone. Nothing the library computes for the properties may depend on it (naive datetimes and
    offset-free time strings mean UTC), so each shard runs under another zone; a replay re-installs the zone of the shard that recorded the case."""
    import time
    tz = PROCESS_ZONES[ctx.shard % len(PROCESS_ZONES)]
    os.environ["TZ"] = tz
    time.tzset()
    ctx.note_set("process_time_zones", tz)


def scratch_dir(prefix):
    """A scratch directory whose PATH is the same for every case of this process (the callers remove it after each case, so it is re-created
    empty each time): files of consecutive cases are written to the very same paths, as a user re-writing and re-loading one file would -
    anything the library remembers about a path (a cache keyed on the file name) then meets changed content."""
    d = os.path.join(os.environ.get("VERIF_TMP", "/var/tmp"), "verif-%s%d" % (prefix, os.getpid()))
    if os.path.isdir(d):
        for f in os.listdir(d):
            try:
                os.remove(os.path.join(d, f))
            except OSError:
                pass
    os.makedirs(d, exist_ok=True)
    return d
