"""C06 - simulated catalogs: exact inverse-CDF placement, conserved counts, quantile, determinism.

Trace property. While a test runs, the global numpy RNG functions are replaced by recording pass-throughs
(or by a hostile source of *legal* draws: 0, every cumulative boundary and its float neighbours, 1-2^-53)
and the module-level _simulate_catalog is wrapped by a recorder. The offline checker then recomputes every
placement from the logged cumulative weights and draws with exact float comparisons.
"""
import math

import numpy

from .. import fixtures, gridcases, simlog
from ..core import digest

META = {
    "title": "Simulated catalogs: inverse CDF, conserved counts, determinism",
    "level": "exploration",
    "rule": ("cases = (rate array, observed counts, test in {L,CL,S,M,binary-S,binary-CL,Brier}, num_simulations, draw source in {seed incl. 0, "
             "injected random_numbers, hostile RNG}) ; rate arrays 1..400 bins with leading/trailing/interior zero runs, totals far "
             "from 1, float cumsum[-1]/sum below 1; hostile draws 0, every W[k], nextafter(W[k],+-), 1-2^-53; plus resampled-magnitude / "
             "MLL tests (numpy.random.choice log) with seeds incl. 0. Every logged simulator call is re-derived offline. Non-trivial: zero-rate "
             "bin present, or hostile/boundary draw, or seed 0, or computed W[-1] != 1; distinct = digest(case, test, source)."),
    "assumptions": ["exact float comparisons for placement", "reference cumulative in numpy.longdouble",
                    "rejection loops bounded by a logical draw budget; exceeding it with natural draws is skipped (inconclusive for that case)"],
    "deciding": ["trace:placement", "trace:count-conservation", "trace:quantile", "determinism:seeded-rerun"],
}
META["added"] = 'Added: hostile legal-draw schedules, primitives on arrays up to 2000 bins, Fortran / transposed / strided tables and re-scaled forecasts, injected draws exactly on the lower cumulative boundary of distinct cells (0.0 for the first positive cell) for the binary and Brier simulators, weights bound (4(k+1)+2n) eps. single-precision rate tables, one injected row per simulation for the binary tests, array-valued scale factors. round-rate forecasts producing near-ties of simulated and observed scores. observed events in zero-rate bins. numpy-integer seeds.'
MANIFEST = {
    "technique": "RNG boundary log + hostile legal-draw injection + simulator boundary log, offline inverse-CDF trace checker with exact comparisons; seeded re-run determinism with scrambled global RNG state",
    "level_text": "Every simulator call made by the 7 gridded tests on generated inputs is recorded (weights, draws, returned counts) and re-derived offline by exact comparison; hostile legal draws (0, every cumulative boundary +-1ulp, largest double below 1) are injected through the RNG boundary and through random_numbers=; count conservation, zero-rate exclusion, quantile identity and seed determinism (incl. seed 0, after scrambling the global RNG) are decided on the trace.",
    "level_note": "Trusted: numpy comparisons, longdouble cumulative reference. Rate-array/draw space is sampled; boundary draws enumerated per case.",
}
WATCHDOG_S = {"quick": 900, "thorough": 5400}
ONE_BELOW = 1.0 - 2.0 ** -53
PTESTS = ("L", "CL", "S", "M")
BTESTS = ("BS", "BCL", "BR")


def shards(tier):
    return 4 if tier == "quick" else 16


def _mods():
    import csep.core.poisson_evaluations as pe
    import csep.core.binomial_evaluations as be
    import csep.core.brier_evaluations as br
    return pe, be, br


def rates_for(test, rates):
    rates = numpy.asarray(rates, dtype=float)
    if test in ("S", "BS"):
        return rates.sum(axis=1)
    if test == "M":
        return rates.sum(axis=0)
    return rates


def boundary_draws(r1d, single=False):
    """Legal draws in [0,1) adjacent to every cumulative boundary of the library's own float weights. single: the rate table is stored in
    single precision, so the library's cumulative weights are float32 numbers (the draws stay float64: the doubles next to those boundaries)."""
    cs = numpy.cumsum(r1d.ravel())
    W = numpy.concatenate([cs / numpy.sum(r1d), cs / cs[-1]])       # both normalisations a library version may use
    if single:
        c32 = numpy.cumsum(r1d.ravel().astype(numpy.float32))
        W = numpy.concatenate([W, (c32 / c32[-1]).astype(float), (c32 / numpy.sum(r1d.ravel().astype(numpy.float32))).astype(float)])
    c = numpy.concatenate([[0.0, ONE_BELOW, 0.5], W, numpy.nextafter(W, 0.0), numpy.nextafter(W, 2.0)])
    c = c[(c >= 0.0) & (c < 1.0)]
    return numpy.unique(c)


class Hostile:
    """Legal but adversarial draws for rand(n) / uniform(0,1) / poisson(mean)."""

    def __init__(self, draws, rng):
        self.draws = draws
        self.i = 0
        self.rng = rng

    def __call__(self, fn, a, k, real):
        if fn == "rand":
            n = int(a[0]) if a else 1
            idx = (self.i + numpy.arange(n)) % self.draws.size
            self.i += n
            return self.draws[idx].copy()
        if fn == "uniform" and not k.get("size") and len(a) <= 2:
            v = self.draws[self.i % self.draws.size]
            self.i += 1
            return float(v)
        if fn == "poisson":
            return int(self.rng.choice([0, 1, 7, 50]))
        return real(*a, **k)


def check_weights(ctx, rc, tags, W_arg, r1d, kind):
    """Cumulative weights the simulator searched: sorted, flat on zero-rate bins, equal to the exact normalised cumulative."""
    W, mask = simlog.weights_data(W_arg)
    ok = True
    ctx.mon("trace:weights", 1)
    if W.shape != r1d.shape:
        ctx.violate("sampling weights have the wrong length", rc, observed=W.shape, expected=r1d.shape, tags=tags)
        return False
    if numpy.any(numpy.diff(W) < 0):
        k = int(numpy.nonzero(numpy.diff(W) < 0)[0][0])
        ctx.violate("cumulative sampling weights are not non-decreasing", rc, observed={"k": k, "W[k:k+2]": W[k:k + 2], "rate[k+1]": r1d[k + 1]},
                    tags=dict(tags, clause="weights-non-monotone", at_zero_rate=bool(r1d[k + 1] == 0)))
        ok = False
    ref = numpy.cumsum(r1d.astype(numpy.longdouble))
    ref = (ref / ref[-1]).astype(float)
    k = numpy.arange(W.size)
    wdt = numpy.ma.getdata(W_arg).dtype
    eps_w = float(numpy.finfo(wdt).eps) if wdt.kind == "f" else float(numpy.finfo(float).eps)      # weights accumulated in the table's own precision
    # sequential float accumulation: relative error <= (k+1) eps at entry k, plus <= n eps from the normalising last entry, which enters every weight
    bad = numpy.abs(W - ref) > (4.0 * (k + 1) + 2.0 * W.size) * eps_w
    if bad.any():
        j = int(numpy.nonzero(bad)[0][0])
        ctx.violate("cumulative weight differs from the exact normalised cumulative rate", rc, observed={"k": j, "W": W[j]}, expected=ref[j],
                    tags=dict(tags, clause="weights-value", at_zero_rate=bool(r1d[j] == 0)))
        ok = False
    z = numpy.nonzero(r1d == 0)[0]
    z = z[z > 0]
    if z.size and numpy.any(W[z] != W[z - 1]):
        ctx.violate("zero-rate bin has non-zero width in the cumulative weights", rc, observed=W[z][:4], expected=W[z - 1][:4],
                    tags=dict(tags, clause="weights-zero-width"))
        ok = False
    return ok


def check_sim_calls(ctx, rc, tags, sl, r1d, kind, n_expected, hostile):
    """Offline inverse-CDF checker over the recorded simulator calls."""
    for j, e in enumerate(sl.calls):
        W, _ = simlog.weights_data(e["weights"])
        u = sl.draws_of(e)
        if j == 0:
            check_weights(ctx, rc, tags, e["weights"], r1d, kind)
        legal = numpy.all((u >= 0.0) & (u < 1.0))
        if "exc" in e:
            ex = e["exc"]
            if isinstance(ex, simlog.DrawBudgetExceeded):
                return "budget"
            if legal:
                ctx.violate("a draw in [0,1) makes the simulator raise", rc, observed={"exc": repr(ex), "max_draw": float(u.max()) if u.size else None,
                                                                                       "W_last": float(W[-1])},
                            tags=dict(tags, clause="draw-without-bin", exc=type(ex).__name__, last_weight_below_one=bool(W[-1] < 1.0)))
            return "raised"
        res = e["result"]
        ctx.mon("trace:placement", 1)
        bins = simlog.place(W, u)
        if kind == "poisson":
            if numpy.any(bins >= W.size):
                ctx.violate("a draw in [0,1) has no bin", rc, observed={"u": u[bins >= W.size][:3], "W_last": W[-1]}, tags=dict(tags, clause="draw-without-bin"))
                continue
            want = numpy.bincount(bins, minlength=W.size).astype(float)
            n_prescribed = n_expected[j] if isinstance(n_expected, list) else n_expected
            ctx.mon("trace:count-conservation", 1)
            if res.sum() != n_prescribed or e["n"] != n_prescribed or u.size != n_prescribed:
                ctx.violate("simulated catalog does not contain the prescribed number of events", rc,
                            observed={"sum": float(res.sum()), "requested": e["n"], "draws": int(u.size)}, expected=n_prescribed, tags=dict(tags, clause="count"))
        else:
            if e["injected"] is not None and numpy.unique(bins).size < bins.size:
                # injected numbers that hit one cell twice on the weights the library actually used (possible when the table's precision differs
                # from the harness' anticipation): the injection point has event semantics there, outside the clause (DESIGN section 4)
                ctx.add("skipped_injected_rows_hitting_one_cell_twice")
                continue
            # rejection sampling: first n distinct bins visited; loop stops as soon as they are collected
            n = e["n"]
            want = numpy.zeros(W.size)
            seen = 0
            used = 0
            for b in bins.tolist():
                used += 1
                if b >= W.size:
                    ctx.violate("a draw in [0,1) has no bin", rc, observed={"u": float(u[used - 1]), "W_last": W[-1]}, tags=dict(tags, clause="draw-without-bin"))
                    break
                if want[b] == 0:
                    want[b] = 1
                    seen += 1
                    if seen == n:
                        break
            ctx.mon("trace:count-conservation", 1)
            if e["injected"] is None and (used != u.size) and seen == n:
                ctx.violate("rejection loop consumed draws after all cells were collected", rc, observed=int(u.size), expected=used, tags=dict(tags, clause="extra-draws"))
            if res.sum() != n or numpy.any((res != 0) & (res != 1)) or n != n_expected:
                ctx.violate("binary simulation does not hold exactly the observed number of active cells, one event each", rc,
                            observed={"sum": float(res.sum()), "max": float(res.max()) if res.size else 0, "requested": n}, expected=n_expected,
                            tags=dict(tags, clause="count"))
        if not numpy.array_equal(res, want):
            d = numpy.nonzero(res != want)[0][:5]
            ctx.violate("event not placed in the bin whose cumulative interval contains its draw", rc,
                        observed={"bins": d, "got": res[d], "rate_at_bins": r1d[d]}, expected={"want": want[d]},
                        tags=dict(tags, clause="placement", in_zero_rate=bool(numpy.any((res > 0) & (r1d == 0)))))
        if numpy.any((res > 0) & (r1d == 0)):
            ctx.violate("simulated event in a zero-rate bin", rc, observed={"bins": numpy.nonzero((res > 0) & (r1d == 0))[0][:5]},
                        tags=dict(tags, clause="zero-rate-bin"))
    return "ok"


def _feasible_binary(r1d, n_active):
    p = numpy.sort(r1d / r1d.sum())[::-1]
    return n_active == 0 or (n_active <= (p > 0).sum() and p[n_active - 1] > 5e-4)


def ex_case(ctx, case, test="CL", num_sim=3, source="seed", seed=1, layout="C", scale=None):
    pe, be, br = _mods()
    rates = numpy.array(case["rates"], dtype=float)
    if layout == "f32":
        rates = rates.astype(numpy.float32).astype(float)        # a single-precision rate table: these are the rates in force
    scale_tag = scale
    scale = gridcases.scale_factor(scale, rates.shape, seed)
    if scale is not None:
        rates = rates * scale        # the rates in force after forecast.scale(scale)

    def build():
        fore, cat, reg, w = gridcases.build(case)
        # memory layout of the forecast's rate table (bin numbering is the logical row-major one whatever the storage order)
        if layout == "F":
            fore._data = numpy.asfortranarray(fore._data)
        elif layout == "T":
            fore._data = numpy.ascontiguousarray(fore._data.T).T
        elif layout == "strided":
            big = numpy.zeros((rates.shape[0], rates.shape[1] * 2))
            big[:, ::2] = numpy.array(case["rates"], dtype=float)
            fore._data = big[:, ::2]
        elif layout == "f32":
            fore._data = fore._data.astype(numpy.float32)
        if scale is not None:
            fore.scale(scale)
        return fore, cat, reg, w
    fore, cat, reg, w = build()
    r1d = rates_for(test, rates).ravel()
    rc = {"exec": "case", "args": {"case": case, "test": test, "num_sim": num_sim, "source": source, "seed": seed, "layout": layout, "scale": scale_tag}}
    ctx.current_case = rc
    n_obs = int(w.sum())
    wobs = {"S": w.sum(axis=1), "BS": w.sum(axis=1), "M": w.sum(axis=0)}.get(test, w)
    n_active = int((wobs > 0).sum())
    poisson = test in PTESTS
    fn, mod = {"L": (pe.likelihood_test, pe), "CL": (pe.conditional_likelihood_test, pe), "S": (pe.spatial_test, pe), "M": (pe.magnitude_test, pe),
               "BS": (be.binary_spatial_test, be), "BCL": (be.binary_conditional_likelihood_test, be), "BR": (br.brier_score_test, br)}[test]
    kind = "poisson" if poisson else ("brier" if test == "BR" else "binary")
    if layout == "f32" and not poisson and source == "hostile":
        # in single precision a cell whose probability is below the float32 resolution has zero width in the cumulative weights: "every positive-rate
        # bin is visited by the schedule" (the premise of the termination clause) cannot be guaranteed by the harness there
        source = "seed"
    tags = {"test": test, "source": source, "has_zero_rate": bool((r1d == 0).any()), "seed_zero": seed == 0, "kind": kind, "layout": layout, "scaled": scale is not None}
    if not poisson and not _feasible_binary(r1d, n_active):
        ctx.add("skipped_infeasible_rejection_cases")
        return
    if numpy.any((wobs > 0) & (rates_for(test, rates) == 0)) and not poisson:
        tags["obs_in_zero_rate"] = True
    kw = {"num_simulations": num_sim}
    hostile = None
    bd = boundary_draws(r1d, single=(layout == "f32"))
    rgen = numpy.random.default_rng([seed, 11])
    if source == "seed":
        kw["seed"] = seed if seed % 3 else numpy.int64(seed)          # seeds also arrive as numpy integers (numpy.arange elements, SeedSequence states)
    elif source == "inject":
        n_draw = n_obs if poisson else n_active
        if test == "L" or n_draw == 0:
            kw["seed"] = seed
        else:
            if poisson:
                rn = rgen.choice(bd, (num_sim, n_draw))
            else:
                # injected rows must hit distinct positive cells (documented injection semantics): one row of numbers per simulation
                pos = numpy.nonzero(r1d > 0)[0]
                cs = numpy.cumsum(r1d) / r1d.sum()
                cands = [cs, numpy.cumsum(r1d) / numpy.cumsum(r1d)[-1]]
                csl = cands[1]
                if layout == "f32":
                    c32_ = numpy.cumsum(r1d.astype(numpy.float32))
                    cands += [(c32_ / c32_[-1]).astype(float), (c32_ / numpy.sum(r1d.astype(numpy.float32))).astype(float)]
                    csl = cands[2]
                rows = []
                for _q in range(num_sim):
                    cells = rgen.choice(pos, n_draw, replace=False)
                    lo = numpy.where(cells > 0, cs[numpy.maximum(cells - 1, 0)], 0.0)
                    f = rgen.choice([0.25, 0.5, 0.75], n_draw)
                    row = lo + f * (cs[cells] - lo)                  # strictly inside the cell's cumulative interval
                    if seed % 2:
                        # draws exactly ON the lower cumulative boundary F_(k-1) of each chosen cell (0.0 for the first positive cell):
                        # [F_(k-1), F_k) is closed on the left, so they still belong to cell k
                        row = numpy.where(cells > int(pos[0]), csl[numpy.maximum(cells - 1, 0)], 0.0)
                        tags["inject_mode"] = "lower-boundary"
                    row = numpy.clip(row, 0.0, ONE_BELOW)
                    if any(numpy.unique(simlog.place(Wx, row)).size != n_draw for Wx in cands):   # ulp-wide cells: cannot inject distinct cells safely
                        rows = None
                        break
                    rows.append(row)
                rn = numpy.array(rows) if rows else None
                tags["injected_simulations"] = min(num_sim, 2)
            if rn is None:
                kw["seed"] = seed
            else:
                kw["random_numbers"] = rn
    else:
        sched = bd[rgen.permutation(bd.size)]
        hostile = Hostile(sched, rgen)
        kw["seed"] = seed
    budget = 200000
    with simlog.RngLog(hostile=hostile, budget=budget) as rl, simlog.SimLog(mod, kind, rl) as sl:
        ok, res, tb = ctx.call(fn, fore, cat, **kw)
    ctx.count(1)
    # prescribed numbers
    if test == "L":
        pdraws = [int(e[2]) for e in rl.of("poisson")]
        n_expected = pdraws
        tot = float(rates.sum())
        for e in rl.of("poisson"):
            mean = e[1][0][0] if e[1][0] else e[1][1].get("lam")
            if abs(float(mean) - tot) > (1e-9 if layout != "f32" else 1e-5) * (1 + tot):
                ctx.violate("L-test draws the number of events from a Poisson law whose mean is not the forecast total", rc, observed=float(mean), expected=tot, tags=tags)
                break
        if len(pdraws) != len(sl.calls):
            n_expected = [c["n"] for c in sl.calls]
    else:
        n_expected = n_obs if poisson else n_active
    status = check_sim_calls(ctx, rc, tags, sl, r1d, kind, n_expected, hostile)
    if status == "budget":
        if hostile is None:
            ctx.add("skipped_budget_exceeded_natural_draws")
        else:
            # the hostile schedule is a permutation of boundary draws that visits every positive-rate bin: the loop must terminate
            ctx.violate("rejection loop does not terminate on a fair cyclic schedule of legal draws", rc, observed="draw budget %d exceeded" % budget,
                        tags=dict(tags, clause="non-termination"))
        return
    if not ok:
        if status != "raised":
            ctx.violate("test raised", rc, observed=repr(res), tb=tb, tags=dict(tags, exc=type(res).__name__))
        return
    if len(sl.calls) != num_sim:
        ctx.violate("number of simulated catalogs != num_simulations", rc, observed=len(sl.calls), expected=num_sim, tags=tags)
    # quantile
    td = numpy.asarray(res.test_distribution, dtype=float)
    obs = float(res.observed_statistic)
    q = float(res.quantile)
    ctx.mon("trace:quantile", 1)
    qref = float(numpy.sum(td <= obs)) / num_sim
    if q != qref or not (0.0 <= q <= 1.0):
        ctx.violate("quantile != fraction of simulated statistics not exceeding the observed one", rc, observed=q, expected=qref, tags=dict(tags, clause="quantile"))
    # determinism
    if source in ("seed", "inject") and hostile is None:
        with simlog.scrambled_global_rng((seed, test, "x")):
            ok2, res2, tb2 = ctx.call(fn, *build()[:2], **kw)
        ctx.mon("determinism:seeded-rerun", 1)
        if not ok2:
            ctx.violate("two runs with the same forecast, catalog and seed differ", rc, observed={"second_run_raised": repr(res2)}, tags=dict(tags, clause="determinism"))
        else:
            td2 = numpy.asarray(res2.test_distribution, dtype=float)
            if not (numpy.array_equal(td, td2, equal_nan=True) and float(res2.quantile) == q and
                    (float(res2.observed_statistic) == obs or (math.isnan(obs) and math.isnan(float(res2.observed_statistic))))):
                ctx.violate("two runs with the same forecast, catalog and seed differ", rc, observed={"first": td[:4], "second": td2[:4]},
                            tags=dict(tags, clause="determinism"))
    if ctx.evaluations % 61 == 0 and sl.calls and "result" in sl.calls[0]:
        e0 = sl.calls[0]
        W0, _m = simlog.weights_data(e0["weights"])
        u0 = sl.draws_of(e0)
        ctx.sample({"test": test, "source": source, "seed": seed, "rates_head": r1d[:6], "cumulative_weights_head": W0[:6], "last_weight": float(W0[-1]),
                    "draws_head": u0[:6], "bins_of_draws_head": simlog.place(W0, u0[:6]), "returned_counts_nonzero_bins": numpy.nonzero(e0["result"])[0][:10],
                    "quantile": q, "n_simulator_calls": len(sl.calls)})
    if tags["has_zero_rate"] or source != "seed" or seed == 0:
        ctx.nt(digest((case["rates"], case["ev_cell"], test, source, seed)))


def ex_prim(ctx, r1d, n, draws, kind="poisson"):
    """Drive the module-level simulators directly with given weights/draws (the documented injection point)."""
    pe, be, br = _mods()
    r1d = numpy.asarray(r1d, dtype=float)
    W = numpy.cumsum(r1d) / numpy.sum(r1d)
    u = numpy.asarray(draws, dtype=float)
    rc = {"exec": "prim", "args": {"r1d": r1d, "n": n, "draws": u, "kind": kind}}
    ctx.current_case = rc
    tags = {"kind": kind, "source": "prim", "has_zero_rate": bool((r1d == 0).any())}
    mod = {"poisson": pe, "binary": be, "brier": br}[kind]
    with simlog.RngLog() as rl, simlog.SimLog(mod, kind, rl) as sl:
        if kind == "brier":
            ok, res, tb = ctx.call(mod._simulate_catalog, n, W, random_numbers=u)
        else:
            ok, res, tb = ctx.call(mod._simulate_catalog, n, W, numpy.zeros(W.shape), random_numbers=u)
    ctx.count(1)
    for e in sl.calls:
        if "exc" in e:
            if W[-1] >= 1.0 or u.max() < W[-1]:
                ctx.violate("a draw in [0,1) makes the simulator raise", rc, observed=repr(e["exc"]), tags=dict(tags, clause="draw-without-bin"))
            else:
                ctx.add("prim_draw_beyond_caller_supplied_last_weight")   # caller-built weights: outside the library's responsibility
            continue
        bins = simlog.place(W, u)
        want = numpy.bincount(bins, minlength=W.size).astype(float)
        ctx.mon("trace:placement", 1)
        if not numpy.array_equal(e["result"], want):
            d = numpy.nonzero(e["result"] != want)[0][:5]
            ctx.violate("event not placed in the bin whose cumulative interval contains its draw", rc, observed={"bins": d, "got": e["result"][d]},
                        expected=want[d], tags=dict(tags, clause="placement"))


def ex_resample(ctx, sizes_seed, test="RM", seed=0, n_obs=6):
    """Catalog-based resampling tests: numpy.random.choice log + determinism incl. seed 0."""
    import csep.core.catalog_evaluations as ce
    r = numpy.random.default_rng([sizes_seed, 3])
    mags = fixtures.mag_bins("4.95", "0.1", int(r.integers(2, 7)))
    reg = fixtures.region(2, 2, 0.1, 10.0, 20.0, magnitudes=mags)

    def mk():
        rr = numpy.random.default_rng([sizes_seed, 4])
        cats = []
        for j in range(int(rr.integers(2, 9))):
            s = int(rr.poisson(6))
            lons, lats = fixtures.events_in_cells(reg, rr.integers(0, 4, s), rr)
            cats.append(fixtures.catalog(lons, lats, mags[rr.integers(0, mags.size, s)] + 0.03, region=reg, catalog_id=j))
        lons, lats = fixtures.events_in_cells(reg, rr.integers(0, 4, n_obs), rr)
        obs = fixtures.catalog(lons, lats, mags[rr.integers(0, mags.size, n_obs)] + 0.03, region=reg)
        return fixtures.catalog_forecast(cats, reg), obs, cats
    fn = ce.resampled_magnitude_test if test == "RM" else ce.MLL_magnitude_test
    rc = {"exec": "resample", "args": {"sizes_seed": sizes_seed, "test": test, "seed": seed, "n_obs": n_obs}}
    ctx.current_case = rc
    tags = {"test": test, "seed_zero": seed == 0, "source": "seed", "kind": "resample"}
    cf, obs, cats = mk()
    if sum(c.event_count for c in cats) == 0:
        return
    with simlog.RngLog() as rl:
        ok, res, tb = ctx.call(fn, cf, obs, seed=seed)
    ctx.count(1)
    if not ok:
        ctx.violate("resampling test raised", rc, observed=repr(res), tb=tb, tags=dict(tags, exc=type(res).__name__))
        return
    union = numpy.zeros(mags.size)
    for c in cats:
        numpy.add.at(union, numpy.minimum(numpy.searchsorted(mags, c.get_magnitudes(), side="right") - 1, mags.size - 1), 1)
    ctx.mon("trace:choice", 1)
    for fn_, a, out in rl.of("choice"):
        if a["size"] != n_obs or numpy.size(out) != n_obs:
            ctx.violate("resampled catalog does not contain the observed number of events", rc, observed=a["size"], expected=n_obs, tags=dict(tags, clause="count"))
            break
        if a["p"] is not None and not numpy.allclose(a["p"], union / union.sum(), rtol=1e-12, atol=0):
            ctx.violate("resampling probabilities are not the union magnitude histogram / N_u", rc, observed=a["p"], expected=union / union.sum(),
                        tags=dict(tags, clause="weights-value"))
            break
    if len(rl.of("choice")) != len(cats):
        ctx.violate("number of resamples != number of synthetic catalogs", rc, observed=len(rl.of("choice")), expected=len(cats), tags=tags)
    td = numpy.asarray(res.test_distribution, dtype=float)
    with simlog.scrambled_global_rng((seed, test, sizes_seed)):
        cf2, obs2, _ = mk()
        ok2, res2, tb2 = ctx.call(fn, cf2, obs2, seed=seed)
    ctx.mon("determinism:seeded-rerun", 1)
    if not ok2:
        ctx.violate("two runs with the same forecast, catalog and seed differ", rc, observed={"second_run_raised": repr(res2)}, tags=dict(tags, clause="determinism"))
    elif not numpy.array_equal(td, numpy.asarray(res2.test_distribution, dtype=float), equal_nan=True):
        ctx.violate("two runs with the same forecast, catalog and seed differ", rc, observed={"first": td[:4], "second": numpy.asarray(res2.test_distribution)[:4]},
                    tags=dict(tags, clause="determinism"))
    ctx.nt(digest(("resample", sizes_seed, test, seed)))


EXECUTORS = {"case": ex_case, "prim": ex_prim, "resample": ex_resample}


def run(ctx):
    thorough = ctx.tier == "thorough"
    n = (180000 if thorough else 400) // ctx.nshards
    for j in range(n):
        r = ctx.rng("c06", j)
        # every sixth case: an observed event lies in a zero-rate bin (the prescribed number of active cells still counts that cell)
        case = gridcases.gen_case(r, max_cells=40, max_mag=6, max_events=60, events_in_zero=(j % 6 == 2), zero_frac=(0.2 if j % 6 == 2 else None),
                                  rate_lo=-6 if j % 2 else -12, rate_hi=2)
        seeds = [0, int(r.integers(1, 10 ** 6))]
        for t in PTESTS + BTESTS:
            src = ["seed", "inject", "hostile"][(j + hash(t)) % 3] if j % 4 else "seed"
            ex_case(ctx, case, t, num_sim=int(r.choice([1, 2, 7])), source=src, seed=seeds[(j + len(t)) % 2],
                    layout=["C", "F", "C", "T", "strided", "f32", "C"][j % 7], scale=None if j % 6 != 5 else (float(r.choice([0.25, 3.0])) if j % 12 != 5 else str(r.choice(["percell", "permag", "full"]))))
        if j % 40 == 0:
            ctx.sample({"cells": case["nx"] * case["ny"], "mags": case["nmag"], "n_events": len(case["ev_cell"]),
                        "zero_rate_bins": int((numpy.array(case["rates"]) == 0).sum()), "tests": PTESTS + BTESTS, "sources": ["seed", "inject", "hostile"]})
    # forecasts built from a few round rate values and small catalogs: simulated catalogs are often permutations of the observed one among
    # equal-rate bins, i.e. their scores tie the observed score mathematically but differ from it by an ulp or two in floating point -
    # the quantile counts exactly the simulated statistics that do not exceed the observed one, as computed
    for j in range((6000 if thorough else 48) // ctx.nshards):
        r = ctx.rng("c06ties", j)
        case = gridcases.gen_case(r, max_cells=6, max_mag=3, max_events=4, zero_frac=0.0, events_in_zero=False)
        shp = numpy.array(case["rates"]).shape
        case["rates"] = r.choice([0.3, 0.6, 0.9, 0.2, 0.1, 0.7], shp).tolist()
        if j % 2:
            # rates equal up to a relative 1e-8 / 1e-10: scores of catalogs that differ in one such cell are ~1e-8 apart - close, not tied
            case["rates"] = (numpy.array(case["rates"]) * (1.0 + r.choice([0.0, 1e-8, -1e-8, 1e-10], shp))).tolist()
        case["history"], case["layout"] = None, None
        for t in ("CL", "L", "S", "M") + tuple(BTESTS):
            ex_case(ctx, case, t, num_sim=int(r.choice([40, 80])), source="seed", seed=int(r.integers(0, 1000)))
        ctx.add("near_tie_cases")
    # strongly peaked forecasts whose weakest active cell carries 6e-4 .. 1.5e-3 of the total rate and every positive-rate cell is active: the
    # binary simulators must keep drawing until that cell is hit (about 1/p ~ 700-1700 draws per simulation, far inside the logical draw budget)
    for j in range((1500 if thorough else 16) // ctx.nshards):
        r = ctx.rng("c06peaked", j)
        case = gridcases.gen_case(r, max_cells=6, max_mag=1, max_events=4, zero_frac=0.0, events_in_zero=False)
        ncell = len(case["rates"])
        if ncell < 3:
            continue
        big = r.uniform(1.0, 5.0, ncell)
        weak = int(r.integers(0, ncell))
        big[weak] = 0.0
        zero = int((weak + 1) % ncell) if r.uniform() < 0.5 else None
        if zero is not None and ncell >= 4:
            big[zero] = 0.0
        big[weak] = float(r.uniform(6e-4, 1.5e-3)) * big.sum()
        case["rates"] = [[float(v)] for v in big]
        act = [c for c in range(ncell) if big[c] > 0]
        case["ev_cell"], case["ev_mag"] = act, [0] * len(act)
        case["frac"] = r.uniform(0.2, 0.8, (len(act), 2)).tolist()
        case["magoff"] = [0.3] * len(act)
        case["history"], case["layout"], case["mask"] = None, None, None
        ctx.mon("workload:peaked-feasible-binary", 1)
        for t in ("BS", "BCL"):
            ex_case(ctx, case, t, num_sim=int(r.choice([20, 40])), source="seed", seed=int(r.integers(0, 1000)))
    # primitives with boundary draws on long arrays (float cumsum[-1]/sum below 1 is common beyond 8 elements)
    for j in range((60000 if thorough else 150) // ctx.nshards):
        r = ctx.rng("c06prim", j)
        nb = int(r.integers(1, 2000 if j % 10 == 0 else 120))
        r1d = 10 ** r.uniform(-8, 2, nb)
        if j % 2:
            r1d[r.uniform(size=nb) < 0.3] = 0.0
            if not r1d.any():
                r1d[0] = 1.0
        bd = boundary_draws(r1d)
        W = numpy.cumsum(r1d) / r1d.sum()
        bd = bd[bd < W[-1]] if W[-1] < 1.0 else bd
        u = r.choice(bd, int(r.integers(1, 80)))
        ex_prim(ctx, r1d, int(u.size), u, "poisson")
        ctx.nt(digest(("prim", ctx.seed, ctx.shard, j)))
    for j in range((22500 if thorough else 60) // ctx.nshards):
        r = ctx.rng("c06rs", j)
        for t in ("RM", "MLL"):
            ex_resample(ctx, int(r.integers(0, 10 ** 6)), t, seed=[0, 0, 17, 12345][j % 4], n_obs=int(r.integers(1, 12)))
