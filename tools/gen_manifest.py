#!/usr/bin/env python3
"""Regenerate MANIFEST.json from the property modules that exist (vlib/props/cNN.py with META)."""
import ast, json, os, re, sys
V = os.path.dirname(os.path.dirname(os.path.abspath(__file__)))
props = [json.loads(l) for l in open(os.path.join(V, "properties.jsonl"))]
NA = json.load(open(os.path.join(V, "tools", "not_applicable.json"))) if os.path.exists(os.path.join(V, "tools", "not_applicable.json")) else {}
checks, na = [], []
for p in props:
    pid = p["id"]
    f = os.path.join(V, "vlib", "props", pid.lower() + ".py")
    if not os.path.exists(f) or pid in NA:
        na.append({"property_id": pid, "reason": NA.get(pid, "check not built yet in this round (runtime-monitoring design exists in DESIGN.md section 3)")})
        continue
    src = open(f).read()
    tree = ast.parse(src)
    meta = None
    for node in tree.body:
        if isinstance(node, ast.Assign) and getattr(node.targets[0], "id", None) == "MANIFEST":
            meta = ast.literal_eval(node.value)
    if meta is None:
        raise SystemExit("no MANIFEST dict in " + f)
    checks.append({
        "property_id": pid,
        "quick_cmd": "./check %s quick" % pid,
        "thorough_cmd": "./check %s thorough" % pid,
        "evidence_file": "evidence/%s.json" % pid,
        "replay_cmd_template": "./check %s --replay {path}" % pid,
        "engine": "vlib",
        "level_claimed": {"category": "exploration", "text": meta["level_text"], "design_ref": meta.get("design_ref", "DESIGN.md section 3, " + pid)},
        "level_note": meta["level_note"],
        "technique": meta["technique"],
    })
man = {
    "version": 1,
    "setup_cmd": "./setup.sh",
    "hooks": {"guard": "PYCSEP_VERIF", "enable": "none needed: all monitors attach from outside (function rebinding, class patching, sys.monitoring); PYCSEP_VERIF is read by no repository code",
              "baseline_off_cmd": "cd /repo && /venv/bin/python -m pytest -ra -q -p no:cacheprovider --timeout=900 --continue-on-collection-errors",
              "source_commits": [], "add_only": True},
    "engines": [{"name": "vlib", "path": "vlib/", "serves_properties": [c["property_id"] for c in checks],
                 "kind_free_text": "runtime monitoring: contracts on the real functions (rebound in every importing module), invariants on live objects, boundary event logs + offline trace checkers, reference-model oracles over generated/hostile/exhaustive-small-space workloads, hostile RNG injection"}],
    "checks": checks,
    "not_applicable": na,
    "notes": "CLI: ./check <Cxx> <quick|thorough> [--replay FILE]. VERIF_SEED selects the workload seed; VERIF_REPO selects the tree (default /repo). Exit 0 held on what was observed / 1 VIOLATION / 2 INCONCLUSIVE. Known findings: known_findings.json (read-only at run time).",
}
json.dump(man, open(os.path.join(V, "MANIFEST.json"), "w"), indent=1)
print("claimed:", [c["property_id"] for c in checks]); print("not_applicable:", [n["property_id"] for n in na])
