"""Builders for small synthetic regions / catalogs / forecasts through the library's public API."""
import datetime
from decimal import Decimal

import numpy

UTC = datetime.timezone.utc


def lattice_origins(ax, ay, dh, nx, ny, active=None):
    """Origins (lon, lat) as nearest floats of the decimal lattice; order: lon-major like CSEP files (lat fastest)."""
    ax, ay, dh = Decimal(str(ax)), Decimal(str(ay)), Decimal(str(dh))
    out = []
    cells = []
    for i in range(nx):
        for j in range(ny):
            if active is None or (i, j) in active:
                out.append((float(ax + i * dh), float(ay + j * dh)))
                cells.append((i, j))
    return numpy.array(out, dtype=float).reshape(-1, 2), cells


def region(nx=3, ny=2, dh=0.1, ax=0.0, ay=0.0, magnitudes=None, active=None, name="r", mask=None):
    from csep.core import regions
    origins, cells = lattice_origins(ax, ay, dh, nx, ny, active)
    mags_ = None if magnitudes is None else _mag_array(magnitudes)
    if mask is None:
        reg = regions.CartesianGrid2D.from_origins(origins, dh=float(dh), magnitudes=mags_, name=name)
    else:
        # what GriddedForecast.load_ascii does for a file with a flag column: every listed cell is a polygon, the flags are the region's mask
        reg = regions.CartesianGrid2D([regions.Polygon(bbox) for bbox in regions.compute_vertices(origins, float(dh))], float(dh), name=name,
                                      mask=numpy.asarray(mask), magnitudes=mags_)
    reg._verif_cells = cells
    return reg


def _mag_array(magnitudes):
    # an ndarray of integer or single-precision bin edges is passed on as it is (users do write numpy.arange(4, 9)); everything else -> float64
    if isinstance(magnitudes, numpy.ndarray) and magnitudes.dtype.kind in "iuf":
        return magnitudes
    return numpy.asarray(magnitudes, dtype=float)


def mag_bins(start="4.95", step="0.1", n=5):
    s, h = Decimal(start), Decimal(step)
    return numpy.array([float(s + k * h) for k in range(n)])


def catalog(lons, lats, mags, times=None, depths=None, ids=None, region=None, name="obs", catalog_id=None):
    from csep.core.catalogs import CSEPCatalog
    n = len(lons)
    if times is None:
        times = [1262304000000 + 1000 * i for i in range(n)]
    if depths is None:
        depths = [5.0] * n
    if ids is None:
        ids = [str(i) for i in range(n)]
    data = [(ids[i], int(times[i]), float(lats[i]), float(lons[i]), float(depths[i]), float(mags[i])) for i in range(n)]
    return CSEPCatalog(data=data, region=region, name=name, catalog_id=catalog_id)


def gridded_forecast(data, reg, magnitudes, name="fore", start=None, end=None):
    from csep.core.forecasts import GriddedForecast
    start = start or datetime.datetime(2010, 1, 1, tzinfo=UTC)
    end = end or datetime.datetime(2011, 1, 1, tzinfo=UTC)
    return GriddedForecast(start_time=start, end_time=end, data=numpy.array(data, dtype=float), region=reg,
                           magnitudes=_mag_array(magnitudes), name=name)


def catalog_forecast(cats, reg, name="cf", **kw):
    from csep.core.forecasts import CatalogForecast
    return CatalogForecast(catalogs=list(cats), region=reg, n_cat=len(cats), name=name,
                           start_time=datetime.datetime(2010, 1, 1, tzinfo=UTC), end_time=datetime.datetime(2011, 1, 1, tzinfo=UTC), **kw)


def events_in_cells(reg, cell_idx, rng, frac=None):
    """Longitudes/latitudes strictly inside the given cell indices of a CartesianGrid2D."""
    org = reg.origins()[numpy.asarray(cell_idx, dtype=int)]
    f = rng.uniform(0.2, 0.8, (len(cell_idx), 2)) if frac is None else frac
    return org[:, 0] + f[:, 0] * reg.dh, org[:, 1] + f[:, 1] * reg.dh
