"""C18 - evaluation results and regions survive serialization."""
import math
import os
import tempfile

import numpy

from .. import fixtures, gridcases
from ..core import digest, scratch_dir
from . import c01, c13

META = {
    "title": "Evaluation results and regions survive serialization",
    "level": "exploration",
    "rule": ("results produced by all 19 public evaluation functions (7 Poisson, NBD N, 3 binary, Brier, 6 catalog-based, calibration) on small "
             "generated inputs incl. events in zero-rate bins (-inf), empty observed catalogs (nan / not-valid / None statistics, empty "
             "distributions), undersampled forecasts; each written with csep.write_json and read with csep.load_evaluation_result, also "
             "to_dict->from_dict. Regions: C01 lattices (unmasked) rebuilt from their dictionary form, compared on boundary-adjacent probes. "
             "Non-trivial: result has a non-finite or None field, or a subclass type, or a distribution of length >= 2; region probes near "
             "boundaries; distinct = digest(case)."),
    "assumptions": ["field-wise equality: numbers as floats (nan/inf by class), sequences modulo tuple/list; non-numeric distribution descriptors compared as strings"],
    "deciding": ["roundtrip:result-json", "roundtrip:region-dict"],
}
META["added"] = 'Added: finalize() makes the run inconclusive when a result class is never produced, quantile pairs with nan / inf, second rebuild from the same dictionary object and from its JSON text. lowest magnitude edge 0.0, lattices at longitudes >= 180. second serialization of the same result object. single-catalog forecasts (one-element distributions), numeric-looking names. integer-typed and single-precision magnitude bins (min_mw is then a numpy scalar), forecast names with runs of blanks.'
MANIFEST = {
    "technique": "boundary recorder on EvaluationResult.to_dict/from_dict, csep.write_json, csep.load_evaluation_result and CartesianGrid2D.to_dict/from_dict; results are produced by the library's own 19 evaluation functions on generated inputs; field-wise equality oracle; class-coverage ledger",
    "level_text": "Every result class the library can produce is obtained by actually running each of the 19 evaluation functions on generated inputs (including -inf, NaN, None and empty-distribution outcomes) and round-tripped through JSON; all documented fields must be equal and the class preserved; the ledger lists which function produced which class and a class never produced makes the run inconclusive. Unmasked Cartesian regions rebuilt from their dict must give the same cell for every probe.",
    "level_note": "Trusted: field-wise comparison; input space sampled.",
}
WATCHDOG_S = {"quick": 900, "thorough": 5400}
FIELDS = ("name", "status", "observed_statistic", "quantile", "test_distribution", "sim_name", "obs_name", "min_mw")
CLASSES = ("EvaluationResult", "CatalogNumberTestResult", "CatalogSpatialTestResult", "CatalogMagnitudeTestResult", "CatalogPseudolikelihoodTestResult",
           "CalibrationTestResult")


def shards(tier):
    return 4 if tier == "quick" else 16


def canon(x):
    if x is None or isinstance(x, str):
        return x
    if isinstance(x, (bool, numpy.bool_)):
        return bool(x)
    if isinstance(x, (int, float, numpy.integer, numpy.floating)):
        f = float(x)
        return "nan" if math.isnan(f) else f
    if isinstance(x, numpy.ndarray):
        return [canon(v) for v in x.tolist()]
    if isinstance(x, (list, tuple)):
        return [canon(v) for v in x]
    return ("?", repr(x))


def numeric_only(x):
    """Numeric components of a (possibly nested) value, in order; strings such as 'normal' or 'poisson' are descriptors, not numbers."""
    c = canon(x)
    out = []

    def rec(v):
        if isinstance(v, list):
            for w in v:
                rec(w)
        elif isinstance(v, float) or v == "nan" or v is None:
            out.append(v)
    rec(c)
    return out


def field_equal(f, a, b):
    if f == "test_distribution":
        seq = (list, tuple, numpy.ndarray)
        if isinstance(a, seq) and not (isinstance(b, seq) and len(b) == len(a)):
            return False          # a numeric distribution of n entries must come back as a sequence of n entries (also for n = 1)
        return numeric_only(a) == numeric_only(b)
    return canon(a) == canon(b)


def roundtrip(ctx, res, rc, producer, tmp):
    import csep
    from csep.models import EvaluationResult
    cname = type(res).__name__
    ctx.note_set("producers", "%s -> %s" % (producer, cname))
    if isinstance(res.test_distribution, numpy.ndarray) and res.test_distribution.size == 1:
        ctx.add("results_with_one_element_array_distribution")
    tags = {"producer": producer, "cls": cname, "status": res.status}
    path = os.path.join(tmp, "res.json")
    ctx.mon("roundtrip:result-json", 1)
    ok, _, tb = ctx.call(csep.write_json, res, path)
    if not ok:
        ctx.violate("writing an evaluation result to JSON raised", rc, observed=repr(_), tb=tb, tags=dict(tags, clause="write-raised", exc=type(_).__name__))
        return
    ok, back, tb = ctx.call(csep.load_evaluation_result, path)
    if not ok:
        ctx.violate("loading an evaluation result from JSON raised", rc, observed=repr(back), tb=tb, tags=dict(tags, clause="load-raised", exc=type(back).__name__))
        return
    if type(back).__name__ != cname:
        ctx.violate("result loaded back as a different class", rc, observed=type(back).__name__, expected=cname, tags=dict(tags, clause="class"))
    for f in FIELDS:
        a, b = canon(getattr(res, f)), canon(getattr(back, f, "<missing>"))
        if not field_equal(f, getattr(res, f), getattr(back, f, "<missing>")):
            ctx.violate("field differs after the JSON round trip", rc, observed={f: b if not isinstance(b, list) else b[:6]},
                        expected={f: a if not isinstance(a, list) else a[:6]}, tags=dict(tags, clause="field", field=f))
    ok, d, tb = ctx.call(res.to_dict)
    if not ok:
        ctx.violate("serializing the same result object a second time raised", rc, observed=repr(d), tb=tb,
                    tags=dict(tags, clause="second-serialization", exc=type(d).__name__))
    else:
        # the same object written a second time (working copy + archive copy) must load back equal as well
        path2 = os.path.join(tmp, "res2.json")
        okw, _w, tbw = ctx.call(csep.write_json, res, path2)
        okl, back2, tbl = ctx.call(csep.load_evaluation_result, path2) if okw else (False, _w, tbw)
        if not okl:
            ctx.violate("serializing the same result object a second time raised", rc, observed=repr(back2), tb=tbl,
                        tags=dict(tags, clause="second-serialization", exc=type(back2).__name__))
        else:
            for f in FIELDS:
                if not field_equal(f, getattr(res, f), getattr(back2, f, "<missing>")):
                    ctx.violate("field differs after the second JSON round trip of the same object", rc, observed={f: canon(getattr(back2, f, None))},
                                tags=dict(tags, clause="field-second", field=f))
        ok2, b2, tb2 = ctx.call(type(res).from_dict, d)
        if not ok2:
            ctx.violate("from_dict(to_dict()) raised", rc, observed=repr(b2), tags=dict(tags, clause="dict-raised"))
        else:
            for f in FIELDS:
                if not field_equal(f, getattr(res, f), getattr(b2, f, "<missing>")):
                    ctx.violate("field differs after to_dict -> from_dict", rc, observed={f: canon(getattr(b2, f, None))}, tags=dict(tags, clause="field-dict", field=f))
    td = canon(res.test_distribution)
    flat = [v for v in (td if isinstance(td, list) else [td])]
    nonfinite = any(v in ("nan", None) or (isinstance(v, float) and math.isinf(v)) for v in flat + [canon(res.observed_statistic)] +
                    (canon(res.quantile) if isinstance(canon(res.quantile), list) else [canon(res.quantile)]))
    if nonfinite or cname != "EvaluationResult" or (isinstance(td, list) and len(td) >= 2):
        ctx.nt(digest((producer, td if not isinstance(td, list) else td[:50], canon(res.observed_statistic), canon(res.quantile), res.status)))


def ex_gridded(ctx, case, ratesB, seed=0):
    import csep.core.poisson_evaluations as pe
    import csep.core.binomial_evaluations as be
    import csep.core.brier_evaluations as br
    rc = {"exec": "gridded", "args": {"case": case, "ratesB": ratesB, "seed": seed}}
    ctx.current_case = rc
    tmp = scratch_dir("c18-")
    try:
        def fresh():
            # names that read like numbers are still names
            fa, cat, reg, w = gridcases.build(case, name=["fore  A   v2", "2010", "1.5", "nan"][seed % 4])
            cat.name = ["obs", "2011", "7", "catalog 7"][seed % 4]
            fb = fixtures.gridded_forecast(numpy.array(ratesB, dtype=float), reg, fa.magnitudes, name=["fore,B  (x)", "2012", "-3e5", "inf"][seed % 4])
            return fa, fb, cat, w
        fa, fb, cat, w = fresh()
        rates = numpy.array(case["rates"])
        positive = bool((rates > 0).all() and (numpy.array(ratesB) > 0).all())
        n_act = int((w > 0).sum())
        feasible = n_act <= int((rates > 0).sum()) and (n_act == 0 or numpy.sort(rates.ravel() / rates.sum())[::-1][n_act - 1] > 1e-3)
        jobs = [("poisson.number_test", lambda: pe.number_test(fa, cat)),
                ("poisson.likelihood_test", lambda: pe.likelihood_test(fa, cat, num_simulations=3, seed=seed)),
                ("poisson.conditional_likelihood_test", lambda: pe.conditional_likelihood_test(fa, cat, num_simulations=3, seed=seed)),
                ("poisson.spatial_test", lambda: pe.spatial_test(fa, cat, num_simulations=2, seed=seed)),
                ("poisson.magnitude_test", lambda: pe.magnitude_test(fa, cat, num_simulations=2, seed=seed)),
                ("binomial.negative_binomial_number_test", lambda: be.negative_binomial_number_test(fa, cat, float(rates.sum()) * 3.0 + 1.0))]
        if positive and cat.event_count >= 2:
            jobs += [("poisson.paired_t_test", lambda: pe.paired_t_test(fa, fb, cat)), ("poisson.w_test", lambda: pe.w_test(fa, fb, cat)),
                     ("binomial.binary_paired_t_test", lambda: be.binary_paired_t_test(fa, fb, cat))]
        if feasible:
            sfe = numpy.sort(rates.sum(axis=1) / rates.sum())[::-1]
            ns = int((w.sum(axis=1) > 0).sum())
            if ns == 0 or sfe[ns - 1] > 1e-3:
                jobs.append(("binomial.binary_spatial_test", lambda: be.binary_spatial_test(fa, cat, num_simulations=2, seed=seed)))
            jobs += [("binomial.binary_conditional_likelihood_test", lambda: be.binary_conditional_likelihood_test(fa, cat, num_simulations=2, seed=seed)),
                     ("brier.brier_score_test", lambda: br.brier_score_test(fa, cat, num_simulations=2, seed=seed))]
        for name, job in jobs:
            ok, res, tb = ctx.call(job)
            ctx.count(1)
            if not ok:
                ctx.add("producer_raised:" + name)
                continue
            roundtrip(ctx, res, rc, name, tmp)
    finally:
        for f in os.listdir(tmp):
            os.remove(os.path.join(tmp, f))
        os.rmdir(tmp)


def ex_catalog_based(ctx, fc, obs_mode="normal", seed=0):
    import csep.core.catalog_evaluations as ce
    from csep.core.catalogs import CSEPCatalog
    rc = {"exec": "catalog_based", "args": {"fc": fc, "obs_mode": obs_mode, "seed": seed}}
    ctx.current_case = rc
    cfg = {"source": "memory", "filters": False, "spatial": False}
    tmp = scratch_dir("c18c-")
    try:
        f, obs, reg = c13.build(fc, cfg, tmp)
        if obs_mode == "empty":
            obs = CSEPCatalog(data=[], region=reg, name="empty obs")
        results = []
        for name, fn, kw in (("catalog.number_test", ce.number_test, {"verbose": False}), ("catalog.spatial_test", ce.spatial_test, {"verbose": False}),
                             ("catalog.magnitude_test", ce.magnitude_test, {"verbose": False}),
                             ("catalog.pseudolikelihood_test", ce.pseudolikelihood_test, {"verbose": False}),
                             ("catalog.resampled_magnitude_test", ce.resampled_magnitude_test, {"seed": seed}),
                             ("catalog.MLL_magnitude_test", ce.MLL_magnitude_test, {"seed": seed})):
            ok, res, tb = ctx.call(fn, f, obs, **kw)
            ctx.count(1)
            if not ok:
                ctx.add("producer_raised:" + name)
                continue
            if res is None:
                ctx.add("producer_returned_None:" + name)
                continue
            roundtrip(ctx, res, rc, name, tmp)
            results.append(res)
        nts = [r for r in results if type(r).__name__ == "CatalogNumberTestResult"]
        if nts:
            ok, res, tb = ctx.call(ce.calibration_test, nts * 3)
            ctx.count(1)
            if ok:
                roundtrip(ctx, res, rc, "catalog.calibration_test", tmp)
            else:
                ctx.add("producer_raised:catalog.calibration_test")
    finally:
        for fn_ in os.listdir(tmp):
            os.remove(os.path.join(tmp, fn_))
        os.rmdir(tmp)


def ex_region(ctx, lat_case, seed=0):
    from csep.core.regions import CartesianGrid2D
    rc = {"exec": "region", "args": {"lat_case": lat_case, "seed": seed}}
    ctx.current_case = rc
    reg, model, origins = c01.build_region(lat_case)
    ctx.mon("roundtrip:region-dict", 1)
    d = reg.to_dict()
    ok, back, tb = ctx.call(lambda: CartesianGrid2D.from_dict(d))
    ctx.count(1)
    tags = {"region": True, "single_row_or_column": bool(lat_case["nx"] == 1 or lat_case["ny"] == 1)}
    if not ok:
        ctx.violate("rebuilding a region from its dictionary raised", rc, observed=repr(back), tb=tb, tags=tags)
        return
    # history: the same dictionary object is used for a second rebuild (and, half of the time, after a JSON text round trip of it)
    import json as _json
    ok2, back2, tb2 = ctx.call(lambda: CartesianGrid2D.from_dict(d if seed % 2 else _json.loads(_json.dumps(d))))
    if not ok2:
        ctx.violate("rebuilding a region from its dictionary raised", rc, observed=repr(back2), tb=tb2,
                    tags=dict(tags, history="second rebuild from the same dictionary object" if seed % 2 else "rebuild from the JSON text of the dictionary"))
        return
    rng = numpy.random.default_rng([seed, 18])
    lon, lat = c01.probes_for(model, rng, per_axis=40)
    ctx.count(int(lon.size))
    m0, m1 = reg.get_masked(lon, lat), back.get_masked(lon, lat)
    if not numpy.array_equal(m0, m1):
        k = numpy.nonzero(m0 != m1)[0][:5]
        ctx.violate("the region rebuilt from its dictionary disagrees on which points are inside", rc,
                    observed={"points": numpy.column_stack([lon[k], lat[k]]), "rebuilt_masked": m1[k]}, expected={"original_masked": m0[k]}, tags=tags)
        return
    ins = ~m0
    if ins.any():
        i0, i1 = reg.get_index_of(lon[ins], lat[ins]), back.get_index_of(lon[ins], lat[ins])
        ok3, i2, tb3 = ctx.call(back2.get_index_of, lon[ins], lat[ins])
        if not ok3 or not numpy.array_equal(i0, i2):
            ctx.violate("the region rebuilt a second time from the same dictionary assigns points to different cell indices", rc,
                        observed=repr(i2)[:120], expected={"original": i0[:5]}, tags=dict(tags, history="second rebuild"))
        if not numpy.array_equal(i0, i1):
            k = numpy.nonzero(i0 != i1)[0][:5]
            ctx.violate("the region rebuilt from its dictionary assigns points to different cell indices", rc,
                        observed={"points": numpy.column_stack([lon[ins][k], lat[ins][k]]), "rebuilt": i1[k]}, expected={"original": i0[k]}, tags=tags)
    # history: a sibling region listing the SAME cells in another order (same name, same spacing) is rebuilt from its dictionary in the same
    # process; a cell's index is its position in the listing, so the sibling's rebuilt copy must follow the sibling's order
    if len(lat_case["cells"]) >= 2 and lat_case.get("flags") is None and lat_case["ctor"] != "midpoint":
        perm = numpy.random.default_rng([seed, 181]).permutation(len(lat_case["cells"]))
        if numpy.array_equal(perm, numpy.arange(perm.size)):
            perm = perm[::-1]
        sib_case = dict(lat_case, cells=[lat_case["cells"][int(k)] for k in perm])
        sib, sib_model, _o = c01.build_region(sib_case)
        sib.name = reg.name
        ok4, sib_back, tb4 = ctx.call(lambda: CartesianGrid2D.from_dict(sib.to_dict()))
        ctx.mon("history:sibling-listing-rebuilt-in-the-same-process", 1)
        if not ok4:
            ctx.violate("rebuilding a region from its dictionary raised", rc, observed=repr(sib_back), tb=tb4, tags=dict(tags, history="sibling listing"))
        elif ins.any():
            j0 = sib.get_index_of(lon[ins], lat[ins])
            ok5, j1, tb5 = ctx.call(sib_back.get_index_of, lon[ins], lat[ins])
            if not ok5 or not numpy.array_equal(j0, j1):
                ctx.violate("a region rebuilt from its dictionary follows the cell order of another region rebuilt earlier in the process", rc,
                            observed=repr(j1)[:120], expected={"original": j0[:8]}, tags=dict(tags, history="sibling listing"))
    ctx.nt_bulk(digest(("reg", lat_case, seed)), int(model.near_boundary(lon, lat).sum()))


EXECUTORS = {"gridded": ex_gridded, "catalog_based": ex_catalog_based, "region": ex_region}


def install(ctx):
    pass


def finalize(m):
    """A result class never produced by any evaluation function makes the run inconclusive."""
    prod = m["extra"].get("producers", [])
    for c in CLASSES:
        if not any(p.endswith("-> " + c) for p in prod):
            m["inconclusive"].append("result class %s was never produced by the workload" % c)


def run(ctx):
    thorough = ctx.tier == "thorough"
    n = (100000 if thorough else 260) // ctx.nshards
    for j in range(n):
        r = ctx.rng("c18", j)
        case = gridcases.gen_case(r, max_cells=12, max_mag=4, max_events=25, rate_lo=-4, rate_hi=1, events_in_zero=(j % 5 == 0),
                                  zero_frac=0.2 if j % 5 == 0 else 0.0)
        B = (numpy.array(case["rates"]) * 10 ** r.normal(0, 0.3, numpy.array(case["rates"]).shape)).tolist()
        if j % 3 == 2:
            case["mag0"] = "0.0"          # lowest magnitude edge exactly 0: min_mw = 0.0 is a value, not "missing"
        elif j % 12 == 1:
            case["mag0"], case["dmag"], case["mag_dtype"] = "4", "1", "int"     # integer-typed magnitude bins (numpy.arange(4, 9)): min_mw is a numpy integer
        elif j % 12 == 7:
            case["mag0"], case["dmag"], case["mag_dtype"] = "4.5", "0.5", "f4"  # single-precision bins whose edges are exact in float32
        ex_gridded(ctx, case, B, seed=int(r.integers(0, 1000)))
        fc = c13.gen_forecast(r, {"source": "memory", "filters": False, "spatial": False})
        if j % 4 == 1:
            fc["cats"] = [c if k % 2 else [] for k, c in enumerate(fc["cats"])]       # many empty synthetic catalogs
        elif j % 8 == 2:
            fc["cats"] = [c for c in fc["cats"] if c][:1] or fc["cats"][:1]           # a single synthetic catalog: one-element test distributions
        elif j % 8 == 6:
            first = next((k for k, c in enumerate(fc["cats"]) if c), 0)
            fc["cats"] = [c if k == first else [] for k, c in enumerate(fc["cats"])]   # only one synthetic catalog holds events
        ex_catalog_based(ctx, fc, obs_mode="empty" if j % 3 == 0 else "normal", seed=j)
        if j % 40 == 0:
            ctx.sample({"gridded_case": {"cells": len(case["rates"]), "mags": case["nmag"], "events": len(case["ev_cell"])},
                        "catalog_forecast_sizes": [len(c) for c in fc["cats"]], "observed": "empty" if j % 3 == 0 else len(fc["obs"])})
    for j in range((30000 if thorough else 100) // ctx.nshards):
        r = ctx.rng("c18r", j)
        case = c01.gen_lattice(r, force=int(r.integers(0, 8)))
        case["flags"] = None
        if case["ctor"] in ("ctor",):
            case["ctor"] = "from_origins"
        if j % 6 == 3:
            case["ax"] = ["359.9", "179.5", "181", "-180"][(j // 6) % 4]      # lattices in the 0..360 convention / straddling the antimeridian
        ex_region(ctx, case, seed=j)
