"""The repository's own test suite as a workload: run it in a subprocess with a property's contracts installed (DESIGN 1.6).

pytest's own pass/fail is ignored (12 tests fail for missing artifacts, and the interpreter may segfault at exit after matplotlib/cartopy
tests - the ledger is written at session finish, before that). What matters is that the monitors see the arguments the repository's
tests construct; contract violations found there are merged into the check's ledger like any other.
"""
import json
import os
import subprocess
import sys
import tempfile

from . import core


def run_repo_suite(ctx, files):
    out = tempfile.mktemp(prefix="verif-suite-", suffix=".json", dir=os.environ.get("VERIF_TMP", "/var/tmp"))
    env = dict(os.environ)
    env.update({"PYCSEP_VERIF": "1", "VERIF_PLUGIN_PROP": ctx.prop, "VERIF_PLUGIN_OUT": out, "PYTHONPATH": core.VERIF_DIR + os.pathsep + core.REPO,
                "PYTHONDONTWRITEBYTECODE": "1", "MPLBACKEND": "Agg", "PYTHONWARNINGS": "ignore"})
    cmd = [sys.executable, "-m", "pytest", "-q", "-p", "no:cacheprovider", "-p", "vlib.pytest_plugin", "--timeout=600", "--continue-on-collection-errors"] + \
          [os.path.join("tests", f) for f in files]
    try:
        r = subprocess.run(cmd, cwd=core.REPO, env=env, capture_output=True, text=True, timeout=1500)
        rc, tail = r.returncode, (r.stdout or "").strip().splitlines()[-1:] or [""]
    except subprocess.TimeoutExpired:
        rc, tail = -999, ["timeout"]
    info = {"files": list(files), "pytest_exit": rc, "summary": tail[0][:200]}
    if os.path.exists(out):
        with open(out) as f:
            p = json.load(f)
        os.remove(out)
        for name, m in p["monitors"].items():
            if m["evals"]:
                ctx.mon(name, 0)
                ctx.monitors[name]["evals"] += m["evals"]
                for c, n in m["by_caller"].items():
                    ctx.monitors[name]["by_caller"][c] = ctx.monitors[name]["by_caller"].get(c, 0) + n
        for v in p["violations"]:
            v.setdefault("tags", {})["workload"] = "repository test suite"
            ctx.violations.append(v)
            ctx.n_violations += 1
        for r_ in p["inconclusive"]:
            ctx.inconc("repo-suite: " + r_)
        info["monitor_evaluations_during_suite"] = {k: v["evals"] for k, v in p["monitors"].items() if v["evals"]}
        info["callers_seen"] = sorted({c for v in p["monitors"].values() for c in v["by_caller"]})
    else:
        info["ledger"] = "missing (suite did not reach session finish)"
    ctx.extra["repo_suite"] = info
    return info
