#!/bin/bash
# tools/replaytest.sh [jobs] : replay fidelity: for every own mutant and every seeded change, run its check on a scratch copy,
# take the first replay file it names and (a) replay it against the changed copy (must reproduce: exit 1),
# (b) replay it against the unchanged tree (must not: exit 0).  Not registered in MANIFEST.
# With REPLAY_ONLY=<file of "patch check" lines> only those pairs are run.
J=${1:-4}
cd "$(dirname "$0")/.."
one() {
  P=$(realpath "$1"); C=$2
  D=$(mktemp -d /var/tmp/pycsep-rt.XXXXXX)
  rsync -a --exclude .git --exclude __pycache__ /repo/ "$D/"
  ( cd "$D" && patch -p1 -s < "$P" ) || { echo "$1 $C PATCH-FAILED"; rm -rf "$D"; return; }
  R=$(VERIF_REPO="$D" ./check "$C" quick 2>&1 | grep -oE "^VIOLATION property=$C replay=[^ ]+" | head -1 | sed 's/.*replay=//')
  if [ -z "$R" ]; then echo "$1 $C NOT-DETECTED"; rm -rf "$D"; return; fi
  cp "$R" "$D/replay.json"
  VERIF_REPO="$D" ./check "$C" quick --replay "$D/replay.json" > /dev/null 2>&1; a=$?
  ./check "$C" quick --replay "$D/replay.json" > /dev/null 2>&1; b=$?
  echo "$1 $C changed=$a unchanged=$b"
  rm -rf "$D"
}
export -f one
if [ -n "$REPLAY_ONLY" ]; then cat "$REPLAY_ONLY"; else {
  for m in mutants/*.patch; do echo "$m $(basename "$m" | cut -d_ -f1 | tr a-z A-Z)"; done
  for d in seeded/*/; do
    for c in $(python3 -c "import json;m=json.load(open('$d/meta.json'));print(' '.join(sorted({k.split()[0] for k in m['detected_by']})))"); do
      echo "${d}patch.diff $c"
    done
  done
}; fi | xargs -P "$J" -L 1 bash -c 'one "$0" "$1"' | sort > /var/tmp/replaytest.out
echo "replaytest: $(grep -c "changed=1 unchanged=0" /var/tmp/replaytest.out) reproduce on the changed copy and not on the unchanged tree; others:"
grep -v "changed=1 unchanged=0" /var/tmp/replaytest.out
