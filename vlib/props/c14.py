"""C14 - catalog persistence round trips preserve every event."""
import os
import tempfile

import numpy

from .. import fixtures
from ..core import digest, scratch_dir
from . import c01

META = {
    "title": "Catalog persistence round trips",
    "level": "exploration",
    "rule": ("catalogs of 0..50 events; ids from printable ASCII incl. , \" ; ' spaces, leading/trailing blanks, digits-only; origin times over "
             "1900..2200 stratified over all 1000 millisecond phases, pre-1970, whole seconds; coordinates/depths/magnitudes as shortest-repr "
             "decimals and 17-digit doubles, extremes +-180, +-90, 0, -0.0; integer catalog ids; with/without name and unmasked Cartesian region; "
             "routes: write_ascii->csep.load_catalog (header on/off, append of two catalogs), to_dict->from_dict, write_json->load_json (and "
             "csep.load_catalog on .json), to_dataframe->from_dataframe. Non-trivial: empty catalog, id with delimiter/quote/blank, non-zero ms, or "
             "pre-1970 time; distinct = digest(catalog, route)."),
    "assumptions": ["identity on the structured event array is the oracle (exact)", "region equality by behaviour: same cell index for probe points"],
    "deciding": ["roundtrip:ascii", "roundtrip:dict", "roundtrip:json", "roundtrip:dataframe"],
}
META["added"] = 'Added: ids containing backslashes (inside, doubled, trailing). with_datetime DataFrame route on non-chronological catalogs, catalog ids 0 and 1 always generated, exponent-notation field values (|v| < 1e-4, subnormals) also in first position, latitude-major regions. the same file path re-used by every case. negative catalog ids. origin time 0 ms.'
MANIFEST = {
    "technique": "boundary recorder on the eight persistence functions with exact identity oracle on the structured event array; region equality by probe behaviour; generated hostile ids / millisecond phases / extreme coordinates",
    "level_text": "Each generated catalog is pushed through the four persistence routes with the real functions; the reloaded event array must be bit-identical (ids, integer ms origin times, doubles), integer catalog ids must survive every route and name/region the dict/JSON routes (region compared by the cell index of boundary-adjacent probe points).",
    "level_note": "Trusted: numpy structured-array equality. Catalog space sampled with stratification over all millisecond phases.",
}
WATCHDOG_S = {"quick": 900, "thorough": 5400}
IDPOOL = ['a\\b', 'net\\sta\\', 'c\\\\d', 'a,b', 'say "hi"', " lead", "trail ", "x;y", "'q'", "1234", "id with spaces", 'ci,12"3', "ev", "us7000abcd", "a\tb", "#1", "é".encode("utf-8").decode("latin-1")]
LO_MS, HI_MS = -2208988800000, 7258118400000


def shards(tier):
    return 4 if tier == "quick" else 16


def gen_events(r, n, j):
    ev = []
    for i in range(n):
        kind = int(r.integers(0, 4))
        base = str(r.choice(IDPOOL[:16])) if r.uniform() < 0.5 else "ev"
        eid = "%s%d" % (base, i) if not base.endswith((" ", "\\")) else "%d%s" % (i, base)
        phase = (j * 53 + i * 7) % 1000 if kind else 0
        ms = int(r.integers(LO_MS // 1000, HI_MS // 1000)) * 1000 + phase
        if kind == 3:
            ms = -abs(ms) // 1000 * 1000 + phase       # pre-1970
        if r.uniform() < 0.05:
            ms = 0                                     # the epoch instant itself
        if r.uniform() < 0.5:
            lat, lon = float(numpy.round(r.uniform(-90, 90), int(r.integers(0, 5)))), float(numpy.round(r.uniform(-180, 180), int(r.integers(0, 5))))
            dep, mag = float(numpy.round(r.uniform(0, 700), 2)), float(numpy.round(r.uniform(0, 9.5), 2))
        else:
            lat, lon, dep, mag = float(r.uniform(-90, 90)), float(r.uniform(-180, 180)), float(r.uniform(0, 700)), float(r.uniform(0, 9.5))
        if r.uniform() < 0.08:
            lat, lon = float(r.choice([90.0, -90.0, 0.0, -0.0])), float(r.choice([180.0, -180.0, 0.0, -0.0]))
        if r.uniform() < 0.12 or (i == 0 and j % 5 == 0):
            # values whose shortest text form uses exponent notation (next to the prime meridian / equator / surface; tiny magnitudes)
            tiny = [1e-05, -2.5e-07, 3.25e-09, -1e-12, 5e-324, 1.5e-05]
            which = int(r.integers(0, 4)) if i else 1
            if which == 0:
                lat = float(r.choice(tiny))
            elif which == 1:
                lon = float(r.choice(tiny))
            elif which == 2:
                dep = abs(float(r.choice(tiny)))
            else:
                mag = abs(float(r.choice(tiny)))
        ev.append((eid, ms, lat, lon, dep, mag))
    return ev


def c14_in_range(ms):
    return -2208988800000 <= ms <= 7258118400000


def same_events(a, b):
    return a.dtype == b.dtype and a.shape == b.shape and a.tobytes() == b.tobytes()


def report(ctx, rc, route, src, got, tags, extra=None):
    ctx.mon("roundtrip:" + route.split(":")[0], 1)
    t = dict(tags, route=route)
    if got.event_count != src.event_count:
        ctx.violate("%s round trip changes the number of events" % route, rc, observed=got.event_count, expected=src.event_count, tags=dict(t, clause="count"))
        return
    if not same_events(src.catalog, got.catalog):
        a, b = src.catalog.tolist(), got.catalog.tolist()
        k = next((i for i, (x, y) in enumerate(zip(a, b)) if x != y), 0) if a else 0
        fields = [n for n, x, y in zip(src.catalog.dtype.names, a[k], b[k]) if x != y] if a else ["dtype"]
        ctx.violate("%s round trip does not preserve every event field exactly" % route, rc, observed=b[k] if b else str(got.catalog.dtype),
                    expected=a[k] if a else str(src.catalog.dtype), tags=dict(t, clause="fields", fields=fields))


def ex_catalog(ctx, ev, catalog_id=None, name=None, lat_case=None, header=True, seed=0):
    import csep
    from csep.core.catalogs import CSEPCatalog
    ev = [tuple(e) for e in ev]
    reg = None
    model = None
    if lat_case is not None:
        reg, model, origins = c01.build_region(lat_case)
    src = CSEPCatalog(data=list(ev), catalog_id=catalog_id, name=name, region=reg)
    rc = {"exec": "catalog", "args": {"ev": ev, "catalog_id": catalog_id, "name": name, "lat_case": lat_case, "header": header, "seed": seed}}
    ctx.current_case = rc
    tags = {"empty": len(ev) == 0, "hostile_id": any(any(ch in e[0] for ch in ',"; \t\'\\') for e in ev), "pre1970": any(e[1] < 0 for e in ev),
            "with_region": reg is not None, "catalog_id": catalog_id is not None}
    tmp = scratch_dir("c14-")
    ctx.count(4)
    try:
        # ---- ASCII
        path = os.path.join(tmp, "cat.csv")
        ok, _, tb = ctx.call(src.write_ascii, path, write_header=header)
        if not ok:
            ctx.violate("write_ascii raised", rc, observed=repr(_), tb=tb, tags=dict(tags, route="ascii", clause="raised"))
        else:
            ok, got, tb = ctx.call(csep.load_catalog, path)
            if not ok:
                ctx.violate("loading a catalog written by write_ascii raised", rc, observed=repr(got), tb=tb,
                            tags=dict(tags, route="ascii", clause="raised", exc=type(got).__name__))
            else:
                report(ctx, rc, "ascii", src, got, tags)
                if catalog_id is not None and len(ev) and got.catalog_id != catalog_id:
                    ctx.violate("integer catalog id lost in the ASCII round trip", rc, observed=got.catalog_id, expected=catalog_id, tags=dict(tags, route="ascii", clause="catalog_id"))
            # append a second copy
            if len(ev) and seed % 3 == 0:
                ok, _, tb = ctx.call(src.write_ascii, path, write_header=False, append=True)
                ok2, got2, tb2 = ctx.call(csep.load_catalog, path)
                if ok and ok2:
                    dbl = CSEPCatalog(data=list(ev) + list(ev), catalog_id=catalog_id)
                    report(ctx, rc, "ascii:append", dbl, got2, tags)
                elif not ok2:
                    ctx.violate("loading an appended ASCII catalog raised", rc, observed=repr(got2), tags=dict(tags, route="ascii:append", clause="raised"))
        # ---- dict
        ok, d, tb = ctx.call(src.to_dict)
        if ok:
            ok, got, tb = ctx.call(CSEPCatalog.from_dict, d)
        if not ok:
            ctx.violate("dict round trip raised", rc, observed=repr(d if not isinstance(d, dict) else got), tb=tb, tags=dict(tags, route="dict", clause="raised"))
        else:
            report(ctx, rc, "dict", src, got, tags)
            meta_checks(ctx, rc, "dict", src, got, tags, model)
            # the dictionary is a persisted form: loading it does not use it up - a second load of the same object gives the same catalog
            ok, got2, tb = ctx.call(CSEPCatalog.from_dict, d)
            ctx.mon("roundtrip:dict-loaded-twice", 1)
            if not ok:
                ctx.violate("second load of the same dictionary raised", rc, observed=repr(got2), tb=tb, tags=dict(tags, route="dict:second-load", clause="raised"))
            else:
                report(ctx, rc, "dict:second-load", src, got2, tags)
                meta_checks(ctx, rc, "dict:second-load", src, got2, tags, model)
        # ---- json
        jpath = os.path.join(tmp, "cat.json")
        ok, _, tb = ctx.call(src.write_json, jpath)
        if not ok:
            ctx.violate("write_json raised", rc, observed=repr(_), tb=tb, tags=dict(tags, route="json", clause="raised"))
        else:
            for loader, lab in ((lambda: CSEPCatalog.load_json(jpath), "json"), (lambda: csep.load_catalog(jpath), "json:csep.load_catalog")):
                ok, got, tb = ctx.call(loader)
                if not ok:
                    ctx.violate("JSON round trip raised", rc, observed=repr(got), tb=tb, tags=dict(tags, route=lab, clause="raised", exc=type(got).__name__))
                else:
                    report(ctx, rc, lab, src, got, tags)
                    meta_checks(ctx, rc, lab, src, got, tags, model)
        # ---- dataframe
        nr = CSEPCatalog(data=list(ev), catalog_id=catalog_id, name=name)        # to_dataframe with a region needs all events inside it
        with_dt = bool(seed % 2) and all(c14_in_range(e[1]) for e in ev)
        ok, df, tb = ctx.call(nr.to_dataframe, with_datetime=with_dt)
        if ok:
            ok, got, tb = ctx.call(CSEPCatalog.from_dataframe, df)
        if not ok:
            ctx.violate("DataFrame round trip raised", rc, observed=repr(df if not ok and not hasattr(df, "columns") else got), tb=tb,
                        tags=dict(tags, route="dataframe", clause="raised", exc=type(got if hasattr(df, "columns") else df).__name__))
        else:
            report(ctx, rc, "dataframe" + (":with_datetime" if with_dt else ""), src, got, tags)
            # row-based forms (ASCII, DataFrame) carry the id in a per-event column: an empty catalog has no carrier for it
            if catalog_id is not None and len(ev) and (got.catalog_id is None or int(got.catalog_id) != catalog_id):
                ctx.violate("integer catalog id lost in the DataFrame round trip", rc, observed=repr(got.catalog_id), expected=catalog_id,
                            tags=dict(tags, route="dataframe", clause="catalog_id"))
    finally:
        for f in os.listdir(tmp):
            os.remove(os.path.join(tmp, f))
        os.rmdir(tmp)
    if tags["empty"] or tags["hostile_id"] or tags["pre1970"] or any(e[1] % 1000 for e in ev):
        ctx.nt(digest((ev, catalog_id, name, header)))


def meta_checks(ctx, rc, route, src, got, tags, model):
    t = dict(tags, route=route)
    if src.catalog_id is not None and got.catalog_id != src.catalog_id:
        ctx.violate("integer catalog id lost in the %s round trip" % route, rc, observed=repr(got.catalog_id), expected=src.catalog_id, tags=dict(t, clause="catalog_id"))
    if src.name is not None and got.name != src.name:
        ctx.violate("catalog name lost in the %s round trip" % route, rc, observed=got.name, expected=src.name, tags=dict(t, clause="name"))
    if src.region is not None:
        if got.region is None:
            ctx.violate("spatial region lost in the %s round trip" % route, rc, tags=dict(t, clause="region"))
            return
        rng = numpy.random.default_rng(5)
        lon, lat = c01.probes_for(model, rng, per_axis=25)
        try:
            m0, m1 = src.region.get_masked(lon, lat), got.region.get_masked(lon, lat)
            same = numpy.array_equal(m0, m1)
            if same and (~m0).any():
                same = numpy.array_equal(src.region.get_index_of(lon[~m0], lat[~m0]), got.region.get_index_of(lon[~m0], lat[~m0]))
        except Exception as e:  # noqa
            same = False
        ctx.mon("roundtrip:region-behaviour", 1)
        if not same:
            ctx.violate("the region restored from the %s form assigns probe points differently" % route, rc, tags=dict(t, clause="region"))


EXECUTORS = {"catalog": ex_catalog}


def install(ctx):
    from ..core import set_process_time_zone
    set_process_time_zone(ctx)


def run(ctx):
    install(ctx)
    thorough = ctx.tier == "thorough"
    n = (480000 if thorough else 1600) // ctx.nshards
    for j in range(n):
        r = ctx.rng("c14", j)
        nev = int(r.choice([0, 1, 2, 7, 50 if j % 10 == 0 else 12]))
        ev = gen_events(r, nev, j + ctx.shard * 100003)
        lat_case = None
        if j % 5 == 0:
            lat_case = c01.gen_lattice(r, force=int(r.integers(3, 8)))
            lat_case["flags"] = None
            lat_case["ctor"] = "from_origins"
            # events inside the region so that region-bound catalogs are well formed
            cells = lat_case["cells"]
            dh = float(lat_case["dh"])
            ev = [(e[0], e[1], float(lat_case["ay"]) + (cells[i % len(cells)][1] + 0.5) * dh, float(lat_case["ax"]) + (cells[i % len(cells)][0] + 0.5) * dh, e[4], e[5])
                  for i, e in enumerate(ev)]
        ex_catalog(ctx, ev, catalog_id=[None, 0, 1, int(r.integers(0, 10000)), -1, None, -3, int(-r.integers(2, 2 ** 40))][j % 8], name=None if j % 3 == 0 else "cat %d" % j,
                   lat_case=lat_case, header=bool(j % 2), seed=j)
        if j % 200 == 0:
            ctx.sample({"n_events": nev, "events_head": ev[:2], "with_region": lat_case is not None, "header": bool(j % 2)})
