#!/bin/bash
# tools/selftest_some.sh <jobs> <Cxx...> : selftest.sh restricted to the listed checks (after a change to those checks only)
J=$1; shift
cd "$(dirname "$0")/.."
WANT=" $* "
{
  for m in mutants/*.patch; do
    c=$(basename "$m" | cut -d_ -f1 | tr a-z A-Z)
    echo "$m $c"
  done
  for d in seeded/*/; do
    for c in $(python3 -c "import json;m=json.load(open('$d/meta.json'));print(' '.join(sorted({k.split()[0] for k in m['detected_by']})))"); do
      echo "$d/patch.diff $c"
    done
  done
} | while read p c; do case "$WANT" in *" $c "*) echo "$p $c";; esac; done \
  | xargs -P "$J" -L 1 bash -c 'MUT_LINES=0 ./tools/mutant.sh "$0" "$1" 2>&1 | tail -1 | sed "s|^|$0 |"' | sort | tee /tmp/selftest_some.out | grep -v "exit 1$"
echo "selftest_some: $(grep -c "exit 1$" /tmp/selftest_some.out) detected, $(grep -vc "exit 1$" /tmp/selftest_some.out) NOT detected (listed above)"
