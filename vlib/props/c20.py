"""C20 - evaluation outcomes do not depend on storage order (metamorphic pairs of executions)."""
import math
import os
import tempfile

import datetime

import numpy

from .. import fixtures, gridcases
from ..core import digest, close, scratch_dir
from . import c10, c17

META = {
    "title": "Evaluation outcomes do not depend on storage order",
    "level": "exploration",
    "rule": ("pairs of executions of the same evaluation on inputs differing only by (a) a permutation of the observed events (random, reversal, "
             "time-sorted/unsorted), (b) a permutation of the synthetic catalogs (incl. empty ones moved around), (c) a consistent permutation of "
             "region cells and forecast rows - Cartesian lattices rebuilt from permuted origins and quadtree grids from permuted quadkeys with events "
             "exactly on tile/cell boundaries; all 18 evaluation functions (7 Poisson, NBD N, 3 binary, Brier, 6 catalog-based). Non-trivial: the "
             "permutation is not the identity on >= 2 events in distinct bins / >= 2 distinct synthetic catalogs / >= 2 cells; distinct = digest(case, permutation, test)."),
    "assumptions": ["statistics compared within 1e-9*(1+|x|) (sums reorder); simulation-free distributions as sorted multisets; with a fixed seed and permuted "
                    "events simulation-based results must be bit-identical; under (b)/(c) simulation-based distributions are compared through the statistic only"],
    "deciding": ["pair:events", "pair:catalogs", "pair:cells"],
}
META["added"] = 'Added: forecasts with a dynamic range of ~1e13 between cells and an event in the weakest cell. regions whose spacing is inferred by from_origins (listing starts with two neighbours) in base and re-ordered listings. the same forecast written to .dat files in different cell orders and loaded by the real loader, catalogs carrying a region that lists the cells in another order, mirrored-cell benchmark on dyadic rates (exact opposite-sign ties for the rank test), in-place re-ordering of an already evaluated catalog object, near-tie quantile skip. only forecast B re-listed; fixed seed 0. non-C rate tables in cell permutations, origin times travelling with the events. structural-tie clause for twin catalogs.'
MANIFEST = {
    "technique": "metamorphic recorder pairing two real executions of each public evaluation on permuted-but-equivalent inputs; equality oracle on statistic / analytic quantile / multiset of simulation-free distributions, bit equality under event permutation with a fixed seed",
    "level_text": "For generated forecasts/catalogs each of the 18 evaluation functions is executed on the original input and on event-, catalog- and cell-permuted equivalents (Cartesian and quadtree regions, events on cell boundaries); statistics and analytic quantiles must agree to rounding, simulation-free distributions as multisets, and seeded simulation-based results bit-for-bit under event permutation.",
    "level_note": "Trusted: construction of equivalent permuted inputs by the harness. Permutation space sampled (5 random + reversal per case).",
}
WATCHDOG_S = {"quick": 900, "thorough": 5400}


def shards(tier):
    return 4 if tier == "quick" else 16


def sig(res, simfree):
    if res is None:
        return None

    def num(x):
        try:
            a = numpy.asarray(x, dtype=float).ravel()
            return a
        except Exception:  # noqa
            return None
    return {"stat": num(res.observed_statistic) if res.observed_statistic is not None else None,
            "quantile": num(res.quantile) if res.quantile is not None and not isinstance(res.quantile, str) else None,
            "dist": num(res.test_distribution) if not isinstance(res.test_distribution, str) else None, "status": res.status}


def eqv(a, b, exact=False):
    if a is None or b is None:
        return a is None and b is None
    if a.shape != b.shape:
        return False
    if exact:
        return bool(numpy.array_equal(a, b, equal_nan=True))
    return all(close(float(x), float(y), rel=1e-9, abs_=1e-12) for x, y in zip(a, b))


def compare(ctx, rc, tags, base, other, mode):
    """mode: 'exact' (bit equality of everything), 'multiset' (stat+quantile to rounding, distribution as multiset), 'stat' (statistic only)."""
    if base is None or other is None:
        if base is not other:
            ctx.violate("result exists for one storage order but not the other", rc, observed=repr(other)[:80], expected=repr(base)[:80], tags=tags)
        return
    if base["status"] != other["status"]:
        ctx.violate("status changes with storage order", rc, observed=other["status"], expected=base["status"], tags=dict(tags, clause="status"))
    if not eqv(base["stat"], other["stat"], exact=(mode == "exact")):
        ctx.violate("observed statistic changes with storage order", rc, observed=other["stat"], expected=base["stat"], tags=dict(tags, clause="statistic"))
        return
    if mode == "stat":
        return
    near_tie = False
    if mode != "exact" and base["dist"] is not None and base["stat"] is not None and base["stat"].size == 1 and base["dist"].size:
        # an empirical quantile counts entries >= / <= the statistic: when an entry equals the statistic to rounding, re-ordered sums may
        # legitimately flip that comparison ("unchanged to rounding"), so the quantile is only compared when no such near-tie exists
        s0 = float(base["stat"][0])
        with numpy.errstate(invalid="ignore"):
            near_tie = bool(numpy.any(numpy.abs(base["dist"] - s0) <= 1e-9 * (1.0 + abs(s0))))
    if near_tie:
        ctx.add("quantile_comparisons_skipped_for_near_ties")
    elif not eqv(base["quantile"], other["quantile"], exact=(mode == "exact")):
        ctx.violate("quantile changes with storage order", rc, observed=other["quantile"], expected=base["quantile"], tags=dict(tags, clause="quantile"))
    bd, od = base["dist"], other["dist"]
    if bd is None or od is None:
        return
    if mode == "exact":
        if not eqv(bd, od, exact=True):
            ctx.violate("seeded simulation-based test distribution changes when the observed events are re-ordered", rc, observed=od[:4], expected=bd[:4],
                        tags=dict(tags, clause="distribution-bits"))
    elif not eqv(numpy.sort(bd), numpy.sort(od)):
        ctx.violate("simulation-free test distribution changes (as a multiset) with storage order", rc, observed=numpy.sort(od)[:6], expected=numpy.sort(bd)[:6],
                    tags=dict(tags, clause="distribution-multiset"))


# ---------------------------------------------------------------------------------------------
# gridded evaluations


def gridded_jobs(seed):
    import csep.core.poisson_evaluations as pe
    import csep.core.binomial_evaluations as be
    import csep.core.brier_evaluations as br
    k = {"num_simulations": 4, "seed": seed}
    return [("poisson.number_test", lambda a, b, c: pe.number_test(a, c), "analytic"),
            ("nbd.number_test", lambda a, b, c: be.negative_binomial_number_test(a, c, float(a.sum()) * 2.5 + 1), "analytic"),
            ("poisson.L", lambda a, b, c: pe.likelihood_test(a, c, **k), "sim"), ("poisson.CL", lambda a, b, c: pe.conditional_likelihood_test(a, c, **k), "sim"),
            ("poisson.S", lambda a, b, c: pe.spatial_test(a, c, **k), "sim"), ("poisson.M", lambda a, b, c: pe.magnitude_test(a, c, **k), "sim"),
            ("poisson.T", lambda a, b, c: pe.paired_t_test(a, b, c), "analytic2"), ("poisson.W", lambda a, b, c: pe.w_test(a, b, c), "analytic2"),
            ("binary.T", lambda a, b, c: be.binary_paired_t_test(a, b, c), "analytic2"),
            ("binary.S", lambda a, b, c: be.binary_spatial_test(a, c, **k), "simbin"), ("binary.CL", lambda a, b, c: be.binary_conditional_likelihood_test(a, c, **k), "simbin"),
            ("brier", lambda a, b, c: br.brier_score_test(a, c, **k), "simbin")]


def build_gridded(case, ratesB, cell_perm=None, event_order=None, quad=None, perm_b_only=False):
    """Forecasts A, B and catalog on the (possibly cell-permuted) region. quad: list of quadkeys -> quadtree region."""
    from csep.core import regions
    rates = numpy.array(case["rates"], dtype=float)
    B = numpy.array(ratesB, dtype=float)
    mags = fixtures.mag_bins(case["mag0"], case["dmag"], case["nmag"])
    ncell = rates.shape[0]
    perm = numpy.arange(ncell) if cell_perm is None else numpy.asarray(cell_perm)
    if quad is None:
        base = fixtures.region(case["nx"], case["ny"], case["dh"], case["ax"], case["ay"])
        origins = base.origins()
        dh_arg = float(case["dh"])
        po = origins[perm]
        if ncell >= 2 and max(abs(po[1, 0] - po[0, 0]), abs(po[1, 1] - po[0, 1])) == dh_arg:
            # the listing starts with two neighbouring cells whose distance is exactly the spacing: the spacing may be left to from_origins
            # to infer (what the GEAR1 reader does) - the region is the same one
            dh_arg = None
        reg = regions.CartesianGrid2D.from_origins(po, dh=dh_arg, magnitudes=mags)
        ec = numpy.asarray(case["ev_cell"], dtype=int)
        n = ec.size
        frac = numpy.asarray(case["frac"], dtype=float).reshape(n, 2)
        lons = origins[ec, 0] + frac[:, 0] * float(case["dh"]) if n else numpy.zeros(0)
        lats = origins[ec, 1] + frac[:, 1] * float(case["dh"]) if n else numpy.zeros(0)
    else:
        import mercantile
        qk = [quad[i] for i in perm]
        reg = regions.QuadtreeGrid2D.from_quadkeys(qk, magnitudes=mags)
        ec = numpy.asarray(case["ev_cell"], dtype=int)
        n = ec.size
        frac = numpy.asarray(case["frac"], dtype=float).reshape(n, 2)
        b = numpy.array([[mercantile.bounds(mercantile.quadkey_to_tile(q)).west, mercantile.bounds(mercantile.quadkey_to_tile(q)).south,
                          mercantile.bounds(mercantile.quadkey_to_tile(q)).east, mercantile.bounds(mercantile.quadkey_to_tile(q)).north] for q in quad])
        onedge = frac < 0.4            # events exactly on the west / south tile boundary (the boundary the tile opens)
        lons = numpy.where(onedge[:, 0], b[ec, 0], b[ec, 0] + frac[:, 0] * (b[ec, 2] - b[ec, 0])) if n else numpy.zeros(0)
        lats = numpy.where(onedge[:, 1], b[ec, 1], b[ec, 1] + frac[:, 1] * (b[ec, 3] - b[ec, 1])) if n else numpy.zeros(0)
    em = numpy.asarray(case["ev_mag"], dtype=int)
    mvals = mags[em] + numpy.asarray(case["magoff"], dtype=float) * float(case["dmag"]) if n else numpy.zeros(0)
    times = numpy.array([1262304000000 + 977 * i for i in range(n)])
    ids = ["e%d" % i for i in range(n)]
    if event_order is not None and n:
        o = numpy.asarray(event_order, dtype=int)
        lons, lats, mvals, times, ids = lons[o], lats[o], mvals[o], times[o], [ids[i] for i in o]
    cat = fixtures.catalog(lons, lats, mvals, times=times, ids=ids, region=reg, name="obs")
    if perm_b_only and quad is None and cell_perm is not None:
        # only the benchmark forecast stores its cells (and, consistently, its rates) in the permuted order: forecast A and the catalog keep the
        # original listing, each forecast looks the events up in its own grid
        reg0 = regions.CartesianGrid2D.from_origins(origins, dh=float(case["dh"]), magnitudes=mags)
        cat = fixtures.catalog(lons, lats, mvals, times=times, ids=ids, region=reg0, name="obs")
        fa = fixtures.gridded_forecast(rates, reg0, mags, name="A")
        fb = fixtures.gridded_forecast(B[perm], reg, mags, name="B")
        return fa, fb, cat
    fa = fixtures.gridded_forecast(rates[perm], reg, mags, name="A")
    fb = fixtures.gridded_forecast(B[perm], reg, mags, name="B")
    lay = case.get("layout")
    if lay == "F":          # the re-ordered tables are kept in Fortran order (what a pandas round trip of the table produces)
        fa._data, fb._data = numpy.asfortranarray(fa._data), numpy.asfortranarray(fb._data)
    elif lay == "T":
        fa._data, fb._data = numpy.ascontiguousarray(fa._data.T).T, numpy.ascontiguousarray(fb._data.T).T
    return fa, fb, cat


def ex_gridded(ctx, case, ratesB, seed=0, quad=None):
    rng = numpy.random.default_rng([seed, 20])
    rates = numpy.array(case["rates"])
    n = len(case["ev_cell"])
    ncell = rates.shape[0]
    positive = bool((rates > 0).all() and (numpy.array(ratesB) > 0).all())
    rc0 = {"exec": "gridded", "args": {"case": case, "ratesB": ratesB, "seed": seed, "quad": quad}}
    ctx.current_case = rc0
    w = numpy.zeros(rates.shape)
    numpy.add.at(w, (numpy.asarray(case["ev_cell"], dtype=int), numpy.asarray(case["ev_mag"], dtype=int)), 1)
    n_act = int((w > 0).sum())
    from .c06 import _feasible_binary
    feas = _feasible_binary(rates.ravel(), n_act) and _feasible_binary(rates.sum(axis=1), int((w.sum(axis=1) > 0).sum()))
    jobs = [j for j in gridded_jobs(seed) if (j[2] != "analytic2" or (positive and n >= 2)) and (j[2] != "simbin" or feas)]
    base = {}
    for name, fn, kind in jobs:
        fa, fb, cat = build_gridded(case, ratesB, quad=quad)
        ok, res, tb = ctx.call(fn, fa, fb, cat)
        base[name] = sig(res, kind) if ok else ("raised", type(res).__name__)
    ctx.count(len(jobs))
    # (a) event permutations
    ev_perms = []
    if n >= 2:
        ev_perms = [rng.permutation(n) for _ in range(2)] + [numpy.arange(n)[::-1]]
    for pi, o in enumerate(ev_perms):
        for name, fn, kind in jobs:
            fa, fb, cat = build_gridded(case, ratesB, event_order=o, quad=quad)
            ok, res, tb = ctx.call(fn, fa, fb, cat)
            ctx.mon("pair:events", 1)
            tags = {"perm": "events", "test": name, "region": "quadtree" if quad else "cartesian"}
            other = sig(res, kind) if ok else ("raised", type(res).__name__)
            if isinstance(base[name], tuple) or isinstance(other, tuple):
                if base[name] != other:
                    ctx.violate("evaluation raises for one storage order only", rc0, observed=repr(other)[:100], expected=repr(base[name])[:100], tags=tags)
                continue
            compare(ctx, rc0, tags, base[name], other, "exact" if kind in ("sim", "simbin") else "multiset")
        ctx.count(len(jobs))
    # (a') history: the same catalog object is evaluated, its stored event array is then re-ordered IN PLACE, and it is evaluated again
    if n >= 2:
        o = rng.permutation(n)
        for name, fn, kind in jobs:
            fa, fb, cat = build_gridded(case, ratesB, quad=quad)
            ok0, res0, tb0 = ctx.call(fn, fa, fb, cat)
            ctx.call(cat.spatial_magnitude_counts)
            cat.catalog[:] = cat.catalog[o]
            ok, res, tb = ctx.call(fn, fa, fb, cat)
            ctx.mon("pair:events", 1)
            tags = {"perm": "events-in-place", "test": name, "region": "quadtree" if quad else "cartesian"}
            other = sig(res, kind) if ok else ("raised", type(res).__name__)
            if isinstance(base[name], tuple) or isinstance(other, tuple):
                if base[name] != other:
                    ctx.violate("evaluation raises for one storage order only", rc0, observed=repr(other)[:100], expected=repr(base[name])[:100], tags=tags)
                continue
            compare(ctx, rc0, tags, base[name], other, "exact" if kind in ("sim", "simbin") else "multiset")
        ctx.count(len(jobs))
    # (c) consistent cell permutations
    cell_perms = [rng.permutation(ncell) for _ in range(2)] + [numpy.arange(ncell)[::-1]] if ncell >= 2 else []
    for p in cell_perms:
        for name, fn, kind in jobs:
            fa, fb, cat = build_gridded(case, ratesB, cell_perm=p, quad=quad)
            ok, res, tb = ctx.call(fn, fa, fb, cat)
            ctx.mon("pair:cells", 1)
            tags = {"perm": "cells", "test": name, "region": "quadtree" if quad else "cartesian"}
            other = sig(res, kind) if ok else ("raised", type(res).__name__)
            if isinstance(base[name], tuple) or isinstance(other, tuple):
                if base[name] != other:
                    ctx.violate("evaluation raises for one storage order only", rc0, observed=repr(other)[:100], expected=repr(base[name])[:100], tags=tags)
                continue
            compare(ctx, rc0, tags, base[name], other, "stat" if kind in ("sim", "simbin") else "multiset")
        ctx.count(len(jobs))
    # (c') only forecast B is re-listed (comparison tests)
    if quad is None and cell_perms:
        p = cell_perms[0]
        for name, fn, kind in jobs:
            if kind != "analytic2" or name.startswith("binary"):
                continue
            fa, fb, cat = build_gridded(case, ratesB, cell_perm=p, perm_b_only=True)
            ok, res, tb = ctx.call(fn, fa, fb, cat)
            ctx.mon("pair:cells", 1)
            tags = {"perm": "cells-of-forecast-B-only", "test": name, "region": "cartesian"}
            other = sig(res, kind) if ok else ("raised", type(res).__name__)
            if isinstance(base[name], tuple) or isinstance(other, tuple):
                if base[name] != other:
                    ctx.violate("evaluation raises for one storage order only", rc0, observed=repr(other)[:100], expected=repr(base[name])[:100], tags=tags)
                continue
            compare(ctx, rc0, tags, base[name], other, "multiset")
    distinct_bins = len({(a, b) for a, b in zip(case["ev_cell"], case["ev_mag"])})
    if (n >= 2 and distinct_bins >= 2) or ncell >= 2:
        ctx.nt(digest((case["rates"], case["ev_cell"], case["ev_mag"], seed, quad)))


# ---------------------------------------------------------------------------------------------
# catalog-based evaluations


def ex_catalog(ctx, fc, seed=0):
    import csep.core.catalog_evaluations as ce
    rng = numpy.random.default_rng([seed, 21])
    tmp = scratch_dir("c20-")
    rc = {"exec": "catalog", "args": {"fc": fc, "seed": seed}}
    ctx.current_case = rc
    tests = [("catalog.N", ce.number_test, {"verbose": False}, "free"), ("catalog.S", ce.spatial_test, {"verbose": False}, "free"),
             ("catalog.M", ce.magnitude_test, {"verbose": False}, "free"), ("catalog.PL", ce.pseudolikelihood_test, {"verbose": False}, "free"),
             ("catalog.RM", ce.resampled_magnitude_test, {"seed": seed}, "sim"), ("catalog.MLL", ce.MLL_magnitude_test, {"seed": seed}, "sim")]
    try:
        if not fc.get("obs_below") and len(fc["obs"]):
            # origin times travel with the events: 40 days apart starting in late 2009, so some events lie before the forecast's start and some
            # after its end, and a re-ordered catalog is not in time order
            fc = dict(fc, obs_times=[1259000000000 + 3456000000 * q for q in range(len(fc["obs"]))])

        def run_all(fcx):
            out = {}
            for name, fn, kw, kind in tests:
                f, obs, reg, mags = c10.build(fcx, "memory", tmp)
                f.start_time = datetime.datetime(2010, 1, 1, tzinfo=datetime.timezone.utc)
                f.end_time = datetime.datetime(2011, 1, 1, tzinfo=datetime.timezone.utc)
                if fcx.get("obs_times") and obs.event_count == len(fcx["obs_times"]):
                    obs.catalog["origin_time"][:] = numpy.asarray(fcx["obs_times"], dtype="i8")
                ok, res, tb = ctx.call(fn, f, obs, **kw)
                out[name] = sig(res, kind) if ok else ("raised", type(res).__name__)
            return out
        base = run_all(fc)
        ctx.count(len(tests))
        J = len(fc["cats"])
        nobs = len(fc["obs"])
        variants = []
        if J >= 2:
            for p in [rng.permutation(J), numpy.arange(J)[::-1], numpy.argsort([len(c) for c in fc["cats"]], kind="stable"),
                      numpy.argsort([-len(c) for c in fc["cats"]], kind="stable")]:
                v = dict(fc)
                v["cats"] = [fc["cats"][i] for i in p]
                variants.append(("catalogs", v))
        if nobs >= 2:
            for p in [rng.permutation(nobs), numpy.arange(nobs)[::-1]]:
                v = dict(fc)
                v["obs"] = [fc["obs"][i] for i in p]
                if fc.get("obs_times"):
                    v["obs_times"] = [fc["obs_times"][i] for i in p]
                variants.append(("events", v))
        # synthetic catalogs occupying exactly the observation's cells (with the same multiplicities) are STRUCTURAL ties of the spatial statistic:
        # the same counts scored by the same code - they must tie the observed statistic bit for bit in every storage order
        from collections import Counter
        obs_cells = Counter(c for c, _k in fc["obs"])
        twins = sum(1 for cat_ in fc["cats"] if cat_ and Counter(c for c, _k in cat_) == obs_cells) if fc["obs"] and not fc.get("obs_below") else 0

        def twin_clause(res_sig, tags):
            if not twins or isinstance(res_sig, tuple) or res_sig is None or res_sig["dist"] is None or res_sig["stat"] is None or res_sig["stat"].size != 1:
                return
            if res_sig["status"] != "normal":
                return
            eq = int(numpy.sum(res_sig["dist"] == float(res_sig["stat"][0])))
            ctx.add("structural_tie_checks")
            if eq < twins:
                ctx.violate("quantile changes with storage order", rc, observed={"entries_equal_to_statistic": eq, "quantile": res_sig["quantile"]},
                            expected={"twin_catalogs": twins}, tags=dict(tags, clause="quantile", structural_ties=True))
        twin_clause(base["catalog.S"], {"perm": "none", "test": "catalog.S"})
        for which, v in variants:
            other = run_all(v)
            twin_clause(other["catalog.S"], {"perm": which, "test": "catalog.S"})
            ctx.count(len(tests))
            for name, fn, kw, kind in tests:
                ctx.mon("pair:" + which, 1)
                tags = {"perm": which, "test": name}
                b, o = base[name], other[name]
                if isinstance(b, tuple) or isinstance(o, tuple):
                    if b != o:
                        ctx.violate("evaluation raises for one storage order only", rc, observed=repr(o)[:100], expected=repr(b)[:100], tags=tags)
                    continue
                if kind == "sim":
                    compare(ctx, rc, tags, b, o, "exact" if which == "events" else "stat")
                else:
                    compare(ctx, rc, tags, b, o, "multiset")
        # (c) the forecast's region lists the same cells in another order while the synthetic catalogs still carry the original region
        #     (history: evaluated on R, then a forecast is built from the same catalog objects on R-permuted)
        from csep.core.forecasts import CatalogForecast
        from csep.core import regions as _regions
        f0, obs0, reg0, mags0 = c10.build(fc, "memory", tmp)
        ncell = reg0.num_nodes
        if ncell >= 2:
            perm = rng.permutation(ncell)
            reg2 = _regions.CartesianGrid2D.from_origins(reg0.origins()[perm], dh=float(reg0.dh), magnitudes=mags0)
            other = {}
            for name, fn, kw, kind in tests:
                f1, obs1, reg1, _m = c10.build(fc, "memory", tmp)
                cats = list(f1.catalogs)                       # bound to reg1 (original order)
                f2 = CatalogForecast(catalogs=cats, region=reg2, n_cat=len(cats), name="cf")
                obs1.region = reg2
                ok, res, tb = ctx.call(fn, f2, obs1, **kw)
                other[name] = sig(res, kind) if ok else ("raised", type(res).__name__)
            ctx.count(len(tests))
            twin_clause(other["catalog.S"], {"perm": "cells-region-rebound", "test": "catalog.S"})
            for name, fn, kw, kind in tests:
                ctx.mon("pair:cells", 1)
                tags = {"perm": "cells-region-rebound", "test": name}
                b, o = base[name], other[name]
                if isinstance(b, tuple) or isinstance(o, tuple):
                    if b != o:
                        ctx.violate("evaluation raises for one storage order only", rc, observed=repr(o)[:100], expected=repr(b)[:100], tags=tags)
                    continue
                compare(ctx, rc, tags, b, o, "stat" if kind == "sim" else "multiset")
        if J >= 2 and len({tuple(tuple(e) for e in c) for c in fc["cats"]}) >= 2:
            ctx.nt(digest((fc, seed)))
    finally:
        for fn_ in os.listdir(tmp):
            os.remove(os.path.join(tmp, fn_))
        os.rmdir(tmp)


def ex_file_order(ctx, case11, seed=0):
    """The same forecast written to a .dat file in two cell orders (rates and mask flags re-ordered consistently), loaded by the real loader."""
    import csep
    import csep.core.poisson_evaluations as pe
    from . import c11
    rng = numpy.random.default_rng([seed, 22])
    lat = case11["lat"]
    ncell = len(lat["cells"])
    if ncell < 2:
        return
    rc = {"exec": "file_order", "args": {"case11": case11, "seed": seed}}
    ctx.current_case = rc
    tmp = scratch_dir("c20f-")
    try:
        flags = lat.get("flags") or [1] * ncell
        good = [k for k in range(ncell) if flags[k] == 1]
        ev = rng.choice(good, int(rng.integers(2, 12)))
        dh = float(lat["dh"])
        lons = numpy.array([float(lat["ax"]) + (lat["cells"][k][0] + 0.5) * dh for k in ev])
        lats = numpy.array([float(lat["ay"]) + (lat["cells"][k][1] + 0.5) * dh for k in ev])
        mags = numpy.full(len(ev), float(case11["m0"]) + 0.03)
        out = []
        for order in (numpy.arange(ncell), rng.permutation(ncell), numpy.argsort([(-c[1], c[0]) for c in map(tuple, lat["cells"])], axis=0)[:, 0] if False else numpy.arange(ncell)[::-1]):
            c2 = dict(case11)
            l2 = dict(lat)
            l2["cells"] = [lat["cells"][k] for k in order]
            l2["flags"] = None if lat.get("flags") is None else [lat["flags"][k] for k in order]
            c2["lat"] = l2
            c2["rates"] = [case11["rates"][k] for k in order]
            path = os.path.join(tmp, "f%d.dat" % len(out))
            c11.write_dat(path, c2)
            fore = csep.load_gridded_forecast(path, swap_latlon=case11["swap"])
            res = {}
            for name, fn in (("N", lambda f, c: pe.number_test(f, c)), ("L", lambda f, c: pe.likelihood_test(f, c, num_simulations=2, seed=seed)),
                             ("CL", lambda f, c: pe.conditional_likelihood_test(f, c, num_simulations=2, seed=seed)),
                             ("S", lambda f, c: pe.spatial_test(f, c, num_simulations=2, seed=seed))):
                cat = fixtures.catalog(lons, lats, mags, region=fore.region)
                ok, r_, tb = ctx.call(fn, fore, cat)
                res[name] = sig(r_, "sim") if ok else ("raised", type(r_).__name__)
            out.append(res)
        ctx.count(3 * 4)
        for other in out[1:]:
            for name in out[0]:
                ctx.mon("pair:cells", 1)
                tags = {"perm": "cells-in-file", "test": "poisson." + name, "region": "cartesian-file", "flags": lat.get("flags") is not None}
                b, o = out[0][name], other[name]
                if isinstance(b, tuple) or isinstance(o, tuple):
                    if b != o:
                        ctx.violate("evaluation raises for one storage order only", rc, observed=repr(o)[:100], expected=repr(b)[:100], tags=tags)
                    continue
                compare(ctx, rc, tags, b, o, "multiset" if name == "N" else "stat")
        ctx.nt(digest(("file", case11["lat"], seed)))
    finally:
        for fn_ in os.listdir(tmp):
            os.remove(os.path.join(tmp, fn_))
        os.rmdir(tmp)


EXECUTORS = {"gridded": ex_gridded, "catalog": ex_catalog, "file_order": ex_file_order}


def install(ctx):
    pass


def run(ctx):
    thorough = ctx.tier == "thorough"
    n = (20000 if thorough else 150) // ctx.nshards
    for j in range(n):
        r = ctx.rng("c20", j)
        case = gridcases.gen_case(r, max_cells=16, max_mag=4, max_events=25, rate_lo=-4, rate_hi=1, zero_frac=0.0 if j % 3 else 0.15, events_in_zero=False)
        if j % 6 == 2 and len(case["rates"]) >= 3 and len(case["ev_cell"]):
            # a forecast with a very large dynamic range: one cell (not the first of the listing) carries ~1e-13 of the total, and an observed
            # event lies in it - whatever is computed per cell must not depend on how much rate is stored before that cell
            ra_ = numpy.array(case["rates"], dtype=float)
            c_ = 1 + int(r.integers(0, ra_.shape[0] - 1))
            ra_[c_] = numpy.maximum(ra_[c_], 1e-3) * 1e-13
            case["rates"] = ra_.tolist()
            case["ev_cell"][0] = c_
        B = (numpy.array(case["rates"]) * 10 ** r.normal(0, 0.4, numpy.array(case["rates"]).shape))
        B = numpy.where(numpy.array(case["rates"]) == 0, 0.0, B)
        quad = None
        if j % 3 == 1:
            quad = c17.random_cut(r, int(r.integers(1, 3)), keep=1.0)
            nc = len(quad)
            nm = case["nmag"]
            rates = 10 ** r.uniform(-4, 1, (nc, nm))
            ne = len(case["ev_cell"])
            case = dict(case, rates=rates.tolist(), ev_cell=r.integers(0, nc, ne).tolist())
            B = rates * 10 ** r.normal(0, 0.4, rates.shape)
        if j % 5 == 4 and quad is None and case["nx"] * case["ny"] >= 2:
            # benchmark = the forecast with its cells mirrored (same total, exactly: dyadic rates), events in both cells of a mirrored pair:
            # the per-event log-rate differences then come in exact +d / -d pairs (tied absolute values of opposite sign for the rank test)
            nc, nm = case["nx"] * case["ny"], case["nmag"]
            rates = r.integers(1, 2000, (nc, nm)) / 1024.0
            ne = max(4, len(case["ev_cell"]) // 2 * 2)
            ci_ = r.integers(0, nc, ne // 2)
            ki_ = r.integers(0, nm, ne // 2)
            ev_cell = numpy.concatenate([ci_, nc - 1 - ci_])
            ev_mag = numpy.concatenate([ki_, ki_])
            case = dict(case, rates=rates.tolist(), ev_cell=ev_cell.tolist(), ev_mag=ev_mag.tolist(), frac=r.uniform(0.15, 0.85, (ne, 2)).tolist(),
                        magoff=r.uniform(0.1, 0.9, ne).tolist())
            B = rates[::-1]
            ctx.add("mirrored_benchmark_cases")
        ex_gridded(ctx, case, B.tolist(), seed=int(r.integers(0, 10 ** 6)) if j % 4 else 0, quad=quad)      # every fourth case: the fixed seed is 0
        fc = c10.gen(r, obs_mode=str(r.choice(["normal", "dense", "twin", "unsampled-some", "twin"])), empty_mode=[None, "some"][j % 2])
        ex_catalog(ctx, fc, seed=int(r.integers(0, 10 ** 6)))
        if j % 2 == 0:
            from . import c11
            c11case = c11.gen_file_case(r)
            if len(c11case["lat"]["cells"]) <= 200:
                ex_file_order(ctx, c11case, seed=j)
        if j % 30 == 0:
            ctx.sample({"gridded": {"cells": len(case["rates"]), "mags": case["nmag"], "events": len(case["ev_cell"]), "region": "quadtree" if quad else "cartesian"},
                        "catalog_forecast_sizes": [len(c) for c in fc["cats"]][:10], "observed": len(fc["obs"])})
