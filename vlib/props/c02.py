"""C02 - 1-D binning: lower-inclusive, upper-exclusive, open at the top; exact edge generators.

Deciding monitors: contract on the real csep.utils.calc.bin1d_vec (rebound in regions/catalogs/
forecasts) evaluated on every call of the workload, and contract on cleaner_range /
magnitude_bins against the exact Decimal grid.
"""
import numpy

from .. import monitor
from ..oracles import binning

META = {
    "title": "1-D binning lower-inclusive/upper-exclusive, open top, exact edge generators",
    "level": "exploration",
    "rule": ("cases = (edge grid, probe vector, mode, dtype/container kind) driven through the real bin1d_vec under a "
             "post-condition; grids: structured starts/steps/lengths + random decimal grids + CSEP magnitude grids + "
             "xs/ys of shipped regions + generator outputs; probes: every (sampled) edge, edge +-{1,2,3,4,8..2^22} ulps, "
             "midpoints, far below/above, +-0. A probe is non-trivial when it equals an edge, lies within 4096 ulps of one, "
             "or lies below the first / above the last edge; distinct = unique probe values per distinct (grid, mode, kind)."),
    "assumptions": ["numpy.searchsorted compares floats exactly (reference bin)",
                    "band below an edge where either neighbour is accepted: max(8(k+2),4096)*eps*(|p|+|a0|) (float64)"],
    "deciding": ["calc.bin1d_vec", "calc.cleaner_range"],
}

WATCHDOG_S = {"quick": 600, "thorough": 3600}


def shards(tier):
    return 4 if tier == "quick" else 16


STARTS = ["0", "2.5", "4.95", "5.95", "-0.05", "-125.4", "-180", "-90", "165.7", "31.5", "0.001", "359.9", "3.95",
          "-34.85", "-47.95", "5.0", "1.05", "-0.5", "100.25", "-179.975", "12.3", "-7.7", "0.3", "6.0", "4.0"]
STEPS = ["0.1", "0.05", "0.2", "0.25", "0.5", "1", "0.01", "0.025", "0.3", "2", "5", "10", "2.5"]
# "awkward" grids: first edge small compared with the step, step not a short binary fraction (0.1/0.3, -0.05/0.15, 0.06/0.01 ...)
ODD_STARTS = ["0.1", "-0.05", "0.2", "0.06", "0.12", "0.15", "0.3", "0.7", "1.1", "0.05", "-0.1", "0.01", "-0.2", "-0.06", "-0.27"]
ODD_STEPS = ["0.3", "0.15", "0.6", "0.7", "0.9", "0.35", "0.45", "0.01", "0.02", "0.03", "0.07", "1.3"]
NS_QUICK = [1, 2, 3, 10, 31, 65, 76, 361]
NS_THOR = [1, 2, 3, 10, 31, 65, 76, 361, 1801, 3601]
OFFS = numpy.array([0, 1, 2, 3, 4, 8, 16, 32, 64, 128, 256, 512, 1024, 2048, 4096, 2 ** 13, 2 ** 14, 2 ** 16, 2 ** 18,
                    2 ** 20, 2 ** 22], dtype=numpy.int64)


def decimal_bins(start, step, n):
    from decimal import Decimal
    s, h = Decimal(start), Decimal(step)
    return numpy.array([float(s + k * h) for k in range(n)], dtype=numpy.float64)


def make_probes(bins, rng, max_edges=300):
    b = numpy.asarray(bins, dtype=numpy.float64)
    n = b.size
    if n > max_edges:
        sel = numpy.unique(numpy.concatenate([numpy.arange(20), numpy.arange(n - 20, n),
                                              rng.integers(0, n, max_edges - 40)]))
    else:
        sel = numpy.arange(n)
    e = b[sel]
    offs = numpy.concatenate([OFFS, -OFFS[1:]])
    near = binning.ulp_shift(numpy.repeat(e, offs.size), numpy.tile(offs, e.size))
    h = (b[1] - b[0]) if n > 1 else 1.0
    mids = e + h * rng.uniform(0.05, 0.95, e.size)
    far = numpy.array([b[0] - 100 * h, b[0] - h, b[0] - 0.5 * h, b[0] - 1e-9 * max(abs(b[0]), 1.0), b[-1] + 0.5 * h,
                       b[-1] + h, b[-1] + 1.5 * h, b[-1] + 2 * h, b[-1] + 100 * h, 0.0, -0.0, 1e300, -1e300, numpy.inf, -numpy.inf, 1.7e308, -1.7e308])
    rnd = rng.uniform(b[0] - 2 * h, b[-1] + 3 * h, 50)
    return numpy.concatenate([near, mids, far, rnd])


# ---------------------------------------------------------------------------------------------
# executors


def _calc():
    import csep.utils.calc as calc
    return calc


def install(ctx):
    calc = _calc()
    import csep.core.regions  # noqa: make sure importing modules are loaded before rebinding
    import csep.core.catalogs  # noqa
    import csep.core.forecasts  # noqa
    binning.install(ctx, calc, "C02")

    def post_cr(ctx, args, kwargs, result, exc, caller):
        a = dict(zip(("start", "end", "h"), args))
        a.update(kwargs)
        if max(binning.decimal_digits(a["start"]), binning.decimal_digits(a["end"]), binning.decimal_digits(a["h"])) > 4 \
                or float(a["h"]) <= 0 or float(a["end"]) < float(a["start"]):
            ctx.add("cleaner_range_out_of_domain_calls")
            return
        ctx.add("cleaner_range_in_domain_calls")
        case = {"exec": "cleaner_range", "args": {"start": float(a["start"]), "end": float(a["end"]), "h": float(a["h"])}}
        if exc is not None:
            ctx.violate("generator-raised", case, observed=repr(exc), tags={"caller": caller})
            return
        ref = binning.exact_grid(a["start"], a["end"], a["h"])
        got = numpy.asarray(result, dtype=numpy.float64)
        if got.shape != ref.shape:
            ctx.violate("generator-length", case, observed={"len": got.size, "tail": got[-3:]},
                        expected={"len": ref.size, "tail": ref[-3:]}, tags={"caller": caller, "clause": "length"})
        elif not numpy.array_equal(got, ref):
            k = numpy.nonzero(got != ref)[0][:5]
            ctx.violate("generator-not-nearest-float", case, observed={"k": k, "vals": got[k]},
                        expected={"vals": ref[k]}, tags={"caller": caller, "clause": "value"})

    monitor.wrap(ctx, calc, "cleaner_range", post_cr, mon_name="calc.cleaner_range")


def ex_bin1d_direct(ctx, p, bins, tol, rc, pdtype="float64", kind="array"):
    """Drive the real function; the contract decides."""
    calc = _calc()
    parr = numpy.asarray(p, dtype=numpy.dtype(pdtype))
    b = numpy.asarray(bins)
    kw = {}
    if tol is not None:
        kw["tol"] = tol
    if kind == "scalar":
        for v in parr.ravel()[:200]:
            x = v.item()
            ok, res, tb = ctx.call(calc.bin1d_vec, x, b, right_continuous=rc, **kw)
    elif kind == "zerod":
        for v in parr.ravel()[:200]:
            ok, res, tb = ctx.call(calc.bin1d_vec, numpy.asarray(v), b, right_continuous=rc, **kw)
    elif kind == "list":
        ok, res, tb = ctx.call(calc.bin1d_vec, parr.tolist(), b.tolist(), right_continuous=rc, **kw)
    else:
        ok, res, tb = ctx.call(calc.bin1d_vec, parr, b, right_continuous=rc, **kw)


def ex_cleaner_range(ctx, start, end, h):
    calc = _calc()
    ctx.call(calc.cleaner_range, start, end, h)


def ex_magnitude_bins(ctx, start, end, h):
    import csep.core.regions as regions
    ctx.call(regions.magnitude_bins, start, end, h)


def ex_callers(ctx, mags, bins):
    """Exercise the library's own call sites so the contract sees the arguments *they* build."""
    import csep
    from csep.core.catalogs import CSEPCatalog
    from csep.core.forecasts import GriddedForecast
    from csep.core import regions
    calc = _calc()
    mags = numpy.asarray(mags, dtype=float)
    bins = numpy.asarray(bins, dtype=float)
    n = mags.size
    events = [(str(i), 1000 * i, 1.0, 2.0, 5.0, float(mags[i])) for i in range(n)]
    cat = CSEPCatalog(data=events)
    ok, res, tb = ctx.call(cat.magnitude_counts, mag_bins=bins)
    if ok:
        # differential: the count histogram equals the reference histogram outside bands
        b = bins
        tk = numpy.searchsorted(b, mags, side="right") - 1
        tk = numpy.minimum(tk, b.size - 1)
        nxt = numpy.clip(tk + 1, 0, b.size - 1)
        inband = (tk + 1 <= b.size - 1) & ((b[nxt] - mags) <= binning.band(mags, nxt.astype(float), b[0], binning.EPS64, None))
        if not inband.any() and not (tk < 0).any():
            ref = numpy.bincount(tk, minlength=b.size).astype(float)
            ctx.mon("catalog.magnitude_counts~reference", 1)
            if not numpy.array_equal(numpy.asarray(res), ref):
                ctx.violate("magnitude_counts-vs-reference", {"exec": "callers", "args": {"mags": mags, "bins": bins}},
                            observed=res, expected=ref, tags={"api": "magnitude_counts"})
    cat.region = regions.CartesianGrid2D.from_origins(numpy.array([[1.5, 0.5], [1.5, 1.5], [2.5, 0.5], [2.5, 1.5]]), dh=1.0,
                                                      magnitudes=bins)
    inside = mags >= bins[0]
    if inside.all() and n:
        ctx.call(cat.get_mag_idx)
        # the open-ended top bin through the space-magnitude gridding of the catalog (event at (2.0, 1.0) lies in cell 1): every magnitude at
        # or above the last edge - however far - is counted in the last bin, and the magnitude marginal equals magnitude_counts
        ok_s, smc, tb_s = ctx.call(cat.spatial_magnitude_counts)
        ctx.mon("catalog.spatial_magnitude_counts~magnitude_counts", 1)
        if not ok_s:
            ctx.violate("spatial_magnitude_counts raised on magnitudes at / above the lowest edge", {"exec": "callers", "args": {"mags": mags, "bins": bins}},
                        observed=repr(smc), tags={"api": "spatial_magnitude_counts", "above_last_edge_plus_step": bool(bins.size > 1 and (mags >= bins[-1] + (bins[1] - bins[0])).any())})
        elif ok and not numpy.array_equal(numpy.asarray(smc).sum(axis=0), numpy.asarray(res)):
            ctx.violate("spatial_magnitude_counts magnitude marginal != magnitude_counts", {"exec": "callers", "args": {"mags": mags, "bins": bins}},
                        observed=numpy.asarray(smc).sum(axis=0), expected=res, tags={"api": "spatial_magnitude_counts"})
    # history: the catalog has been binned on the magnitude grid bound to its region; the SAME region object then gets another magnitude
    # grid (assigned, or replaced by a forecast constructed on the shared region); the catalog's bins must be those of the grid now bound.
    # Decided on the events that lie outside the round-off band of both grids (the contract underneath judges the others call by call).
    if n and bins.size >= 3:
        bins2 = bins[1:].copy()

        def _ref(b_, m_):
            tk_ = numpy.minimum(numpy.searchsorted(b_, m_, side="right") - 1, b_.size - 1)
            nxt_ = numpy.clip(tk_ + 1, 0, b_.size - 1)
            band_ = (tk_ + 1 <= b_.size - 1) & ((b_[nxt_] - m_) <= binning.band(m_, nxt_.astype(float), b_[0], binning.EPS64, None))
            return tk_, band_
        clean = mags[~(_ref(bins, mags)[1] | _ref(bins2, mags)[1])]
        if clean.size:
            rcase = {"exec": "callers", "args": {"mags": mags, "bins": bins}}
            cat_h = CSEPCatalog(data=[(str(i), 1000 * i, 2.0, 1.0, 5.0, float(clean[i])) for i in range(clean.size)])
            cat_h.region = regions.CartesianGrid2D.from_origins(numpy.array([[1.5, 0.5], [1.5, 1.5], [2.5, 0.5], [2.5, 1.5]]), dh=1.0, magnitudes=bins)
            tk1 = _ref(bins, clean)[0]
            ok_i, idx1, tb_i = ctx.call(cat_h.get_mag_idx)
            ok_c, cnt1, tb_c = ctx.call(cat_h.magnitude_counts)
            ctx.mon("catalog.magnitude_counts~reference", 1)
            if not ok_i or not numpy.array_equal(numpy.asarray(idx1), tk1):
                ctx.violate("get_mag_idx-vs-reference", rcase, observed=repr(idx1) if not ok_i else numpy.asarray(idx1)[:12], expected=tk1[:12],
                            tags={"api": "get_mag_idx"})
            ref1 = numpy.bincount(tk1[tk1 >= 0], minlength=bins.size).astype(float)
            if not ok_c or not numpy.array_equal(numpy.asarray(cnt1), ref1):
                ctx.violate("magnitude_counts-vs-reference", rcase, observed=repr(cnt1) if not ok_c else numpy.asarray(cnt1), expected=ref1,
                            tags={"api": "magnitude_counts", "bins": "region-bound"})
            how = int(n + bins.size) % 2
            if how == 0:
                cat_h.region.magnitudes = bins2
            else:
                ctx.call(GriddedForecast, data=numpy.ones((4, bins2.size)), region=cat_h.region, magnitudes=bins2)
            if numpy.array_equal(numpy.asarray(cat_h.region.magnitudes, dtype=float), bins2):
                tk = _ref(bins2, clean)[0]
                htags = {"history": "region.magnitudes assigned" if how == 0 else "forecast constructed on the shared region"}
                ok_i, idx2, tb_i = ctx.call(cat_h.get_mag_idx)
                ctx.mon("history:region magnitudes replaced between two binnings", 1)
                if not ok_i or not numpy.array_equal(numpy.asarray(idx2), tk):
                    ctx.violate("after the region's magnitude grid was replaced the catalog still reports bins of the old grid (get_mag_idx)", rcase,
                                observed=repr(idx2) if not ok_i else numpy.asarray(idx2)[:12], expected=tk[:12], tags=dict(htags, api="get_mag_idx"))
                ok_c, cnt2, tb_c = ctx.call(cat_h.magnitude_counts)
                ref2 = numpy.bincount(tk[tk >= 0], minlength=bins2.size).astype(float)
                if not ok_c or not numpy.array_equal(numpy.asarray(cnt2), ref2):
                    ctx.violate("after the region's magnitude grid was replaced the catalog still counts on the old grid (magnitude_counts)", rcase,
                                observed=repr(cnt2) if not ok_c else numpy.asarray(cnt2), expected=ref2, tags=dict(htags, api="magnitude_counts"))
    # discretize (closed and open)
    ok, res, tb = ctx.call(calc.discretize, mags, bins, right_continuous=True)
    if ok and (mags >= bins[0]).all():
        got = numpy.asarray(res)
        tk = numpy.minimum(numpy.searchsorted(bins, mags, side="right") - 1, bins.size - 1)
        lowok = got >= bins[tk]   # never below the true bin's edge
        if not lowok.all():
            ctx.violate("discretize-below-true-bin", {"exec": "callers", "args": {"mags": mags, "bins": bins}},
                        observed=got[~lowok][:10], expected=bins[tk][~lowok][:10], tags={"api": "discretize"})
    # forecast magnitude index
    reg = regions.CartesianGrid2D.from_origins(numpy.array([[1.5, 0.5], [1.5, 1.5]]), dh=1.0, magnitudes=bins)
    fore = GriddedForecast(data=numpy.ones((2, bins.size)), region=reg, magnitudes=bins)
    sel = mags[mags >= bins[0]]
    if sel.size:
        ctx.call(fore.get_magnitude_index, sel)


def ex_f32_edges(ctx, start, step, n):
    """Edges stored in single precision (magnitudes read from a float32 table). Such an array is equally spaced only up to float32 rounding, so
    the general contract does not judge it; judged here are the two kinds of value about which the property leaves no choice: a value equal
    to an edge (the same number, in float32 or float64) lands in the bin that edge opens, a value in the middle of a bin lands in that bin."""
    calc = _calc()
    from decimal import Decimal
    b64 = numpy.array([float(Decimal(start) + k * Decimal(step)) for k in range(n)])
    b32 = b64.astype(numpy.float32)
    if not numpy.all(numpy.diff(b32) > 0):
        return
    mids = ((b32[:-1].astype(float) + b32[1:].astype(float)) / 2.0)
    case = {"exec": "f32_edges", "args": {"start": start, "step": step, "n": n}}
    probes = [("edge as float32", b32.copy(), numpy.arange(n)), ("edge as float64", b32.astype(numpy.float64), numpy.arange(n)),
              ("mid-bin", mids, numpy.arange(n - 1)), ("mid-bin as float32", mids.astype(numpy.float32), numpy.arange(n - 1))]
    for rc in (False, True):
        for label, pts, want in probes:
            forms = [("array", pts)] + [("scalar", None)]
            ok, res, tb = ctx.call(calc.bin1d_vec, pts, b32, right_continuous=rc)
            ctx.mon("f32-edges:on-edge/mid-bin", 1)
            ctx.count(int(pts.size))
            if not ok:
                ctx.violate("bin1d_vec raised on single-precision edges", case, observed=repr(res), tb=tb, tags={"clause": "f32-edges", "probe": label, "open": rc})
                continue
            got = numpy.asarray(res).astype(int)
            bad = numpy.nonzero(got != want)[0]
            if bad.size:
                k = int(bad[0])
                ctx.violate("value on a single-precision edge / in the middle of a bin is not placed in that bin", case,
                            observed={"value": float(pts[k]), "bin": int(got[k]), "n_wrong": int(bad.size)}, expected={"bin": int(want[k])},
                            tags={"clause": "f32-edges", "probe": label, "open": rc})
            # the same values one at a time
            for k in (0, n // 2, n - 2):
                if 0 <= k < pts.size:
                    ok, r1, tb = ctx.call(calc.bin1d_vec, pts[k].item(), b32, right_continuous=rc)
                    if not ok or int(numpy.asarray(r1).ravel()[0]) != int(want[k]):
                        ctx.violate("value on a single-precision edge / in the middle of a bin is not placed in that bin", case,
                                    observed={"value": float(pts[k]), "bin": repr(r1)}, expected={"bin": int(want[k])},
                                    tags={"clause": "f32-edges", "probe": label + " (scalar)", "open": rc})
    ctx.nt(core_digest(("f32", start, step, n)))


def ex_mw_table(ctx):
    from csep.utils.constants import CSEP_MW_BINS
    ref_tab = decimal_bins("2.5", "0.1", 76)
    if numpy.shape(CSEP_MW_BINS) != ref_tab.shape or not numpy.array_equal(numpy.asarray(CSEP_MW_BINS, dtype=float), ref_tab):
        ctx.violate("generator-not-nearest-float", {"exec": "mw_table", "args": {}}, observed="table differs", tags={"clause": "table"})


EXECUTORS = {"mw_table": ex_mw_table, "f32_edges": ex_f32_edges, "bin1d_direct": ex_bin1d_direct, "cleaner_range": ex_cleaner_range, "magnitude_bins": ex_magnitude_bins,
             "callers": ex_callers}


# ---------------------------------------------------------------------------------------------


def drive_grid(ctx, bins, rng, label, kinds=("array",), modes=(False, True), dtypes=("float64",), tol=None):
    probes = make_probes(bins, rng)
    gkey = core_digest((label, numpy.asarray(bins, dtype=float)[:3].tolist(), len(bins)))
    for rc in modes:
        for dt in dtypes:
            for kind in kinds:
                p = probes
                if dt in ("float32", ">f4"):
                    p = numpy.unique(probes.astype(numpy.float32))
                    p = p[numpy.isfinite(p)]
                elif dt == "int64":
                    lo, hi = int(numpy.floor(bins[0])) - 3, int(numpy.ceil(bins[-1])) + 4
                    p = numpy.arange(lo, min(hi, lo + 5000))
                if kind in ("scalar", "zerod"):
                    p = p[rng.permutation(p.size)[:120]]
                ex_bin1d_direct(ctx, p, bins, tol, rc, pdtype=dt, kind=kind)
                ctx.count(int(numpy.size(p)))
                pf = numpy.unique(numpy.asarray(p, dtype=float))
                nt = int(binning.nontrivial_mask(pf, bins).sum())
                ctx.nt_bulk(core_digest((gkey, rc, dt, kind, tol)), nt)
    ctx.sample({"grid": label, "first_edges": numpy.asarray(bins)[:3], "n_edges": len(bins),
                "probe_examples": probes[:6]}, cap=4)


def core_digest(x):
    from ..core import digest
    return digest(x)


def run(ctx):
    install(ctx)
    thorough = ctx.tier == "thorough"
    NS = NS_THOR if thorough else NS_QUICK
    rng = ctx.rng("c02")
    ci = 0
    # 1. structured decimal grids
    for s in STARTS:
        for h in STEPS:
            for n in NS:
                ci += 1
                if not ctx.mine(ci):
                    continue
                if not thorough and (ci // ctx.nshards) % 3 and n not in (1, 2):   # quick: a third of the big grids
                    continue
                bins = decimal_bins(s, h, n)
                kinds = ("array",) if n > 10 else ("array", "scalar", "zerod", "list")
                dts = ("float64",) if n > 80 else ("float64", "float32", "int64", ">f8", ">f4")      # incl. arrays in non-native byte order (as read from big-endian files)
                drive_grid(ctx, bins, rng, "dec:%s:%s:%d" % (s, h, n), kinds=kinds, dtypes=dts)
    # 1b. awkward grids (every edge probed: the failure mode needs a high bin index)
    for s in ODD_STARTS:
        for h in ODD_STEPS:
            ci += 1
            if not ctx.mine(ci) or (not thorough and ci % 2):
                continue
            bins = decimal_bins(s, h, 4800 if thorough else 200)
            drive_grid(ctx, bins, rng, "odd:%s:%s" % (s, h), dtypes=("float64", ">f8"))
    # 2. random decimal grids (0-3 digits)
    nrand = 48000 if thorough else 120
    for j in range(nrand):
        ci += 1
        if not ctx.mine(ci):
            continue
        r = ctx.rng("c02rand", j)
        digits = int(r.integers(0, 4))
        start = round(float(r.uniform(-400, 400)), digits)
        h = (STEPS + ODD_STEPS)[int(r.integers(0, len(STEPS) + len(ODD_STEPS)))]
        if j % 3 == 0:
            start = round(float(r.uniform(-1.5, 1.5)), int(r.integers(1, 3)))        # small first edges
        n = int(r.choice([1, 2, 5, 20, 100, 500, 2000] if thorough else [1, 2, 5, 20, 100, 400]))
        bins = decimal_bins(repr(start), h, n)
        drive_grid(ctx, bins, r, "rand:%r:%s:%d" % (start, h, n))
    # 3. generator outputs as grids + generator contract
    gen_cases = []
    for s in STARTS:
        for h in STEPS:
            for n in ([1, 3, 31, 76, 361] if not thorough else [1, 2, 3, 31, 76, 361, 1801]):
                from decimal import Decimal
                end = float(Decimal(s) + (n - 1) * Decimal(h))
                gen_cases.append((float(s), end, float(h)))
    # awkward steps: 1/h is not a multiple of the scale the first edge needs (0.1/0.04 -> scale 25), non-binary steps (0.07, 0.03)
    for s_ in ODD_STARTS + ["4.95", "0", "2.5", "-125.4"]:
        for h_ in ODD_STEPS + ["0.04", "0.0625", "0.125", "0.005", "0.001"]:
            for n_ in (3, 60, 400):
                from decimal import Decimal
                gen_cases.append((float(s_), float(Decimal(s_) + (n_ - 1) * Decimal(h_)), float(h_)))
    gen_cases += [(4.95, 8.95, 0.1), (5.95, 8.95, 0.1), (2.5, 8.95, 0.05), (3.95, 8.95, 0.1), (-180.0, 180.0, 1.0),
                  (-90, 90.0, 0.5), (-180.0, 180.0, 0.1), (0.0, 10.0, 0.01), (4.0, 9.0, 0.5)]
    for j in range(7200 if thorough else 60):
        r = ctx.rng("c02gen", j)
        digits = int(r.integers(0, 4))
        s = round(float(r.uniform(-400, 400)), digits)
        h = float(STEPS[int(r.integers(0, len(STEPS)))])
        n = int(r.integers(1, 36000 if thorough else 400))
        from decimal import Decimal
        gen_cases.append((s, float(Decimal(repr(s)) + (n - 1) * Decimal(repr(h))), h))
    import csep.core.regions as regions
    calc = _calc()
    for (s, e, h) in gen_cases:
        ci += 1
        if not ctx.mine(ci):
            continue
        ok, bins, tb = ctx.call(calc.cleaner_range, s, e, h)
        ctx.call(regions.magnitude_bins, s, e, h)
        ctx.count(2)
        ctx.nt(("gen", s, e, h))
        if ok and len(bins) >= 1 and binning.in_domain(bins):
            drive_grid(ctx, bins, rng, "gen:%r:%r:%r" % (s, e, h))
        if ok and isinstance(bins, numpy.ndarray) and bins.size and ci % 3 == 0:
            # history: the caller shifts the returned edges in place (e.g. to bin centres), then asks for the same grid again -
            # the generator contract judges the second answer like the first
            try:
                bins += 0.5 * float(h)
                bins[0] = -180.0
            except (ValueError, TypeError):
                pass
            ctx.call(calc.cleaner_range, s, e, h)
            ctx.call(regions.magnitude_bins, s, e, h)
            ctx.add("generator_calls_after_in_place_edit_of_the_previous_result")
    # 4. CSEP magnitude grid, integer grids, explicit tol
    ci += 1
    if ctx.mine(ci):
        from csep.utils.constants import CSEP_MW_BINS
        # the shipped default table is one of "the edges the library itself produces": exactly the floats closest to 2.5 + 0.1 k
        ref_tab = decimal_bins("2.5", "0.1", 76)
        ctx.mon("table:CSEP_MW_BINS", 1)
        if numpy.shape(CSEP_MW_BINS) != ref_tab.shape or not numpy.array_equal(numpy.asarray(CSEP_MW_BINS, dtype=float), ref_tab):
            got_ = numpy.asarray(CSEP_MW_BINS, dtype=float).ravel()
            k_ = numpy.nonzero(got_[:ref_tab.size] != ref_tab[:got_.size])[0][:5] if got_.size else numpy.arange(0)
            ctx.violate("generator-not-nearest-float", {"exec": "mw_table", "args": {}}, observed={"len": int(got_.size), "k": k_, "vals": got_[k_]},
                        expected={"len": 76, "vals": ref_tab[k_]}, tags={"caller": "csep.utils.constants", "clause": "table"})
        drive_grid(ctx, numpy.asarray(CSEP_MW_BINS), rng, "CSEP_MW_BINS", kinds=("array", "scalar", "list"),
                   dtypes=("float64", "float32", "int64"))
        drive_grid(ctx, numpy.arange(0, 50), rng, "int-grid", dtypes=("float64", "int64"))
        drive_grid(ctx, numpy.arange(-20, 20, 2), rng, "int-grid-2", dtypes=("float64", "int64"))
        for tol_ in (1e-5, 1e-9, 1e-3):
            for s_, h_ in (("4.95", "0.1"), ("2.5", "0.05"), ("-125.4", "0.1"), ("0.1", "0.3")):
                drive_grid(ctx, decimal_bins(s_, h_, 41), rng, "tol=%g:%s:%s" % (tol_, s_, h_), tol=tol_)
    # 5. shipped regions' lon/lat edges
    makers = ["nz_csep_region"] if not thorough else ["nz_csep_region", "nz_csep_collection_region",
                                                      "italy_csep_collection_region", "california_relm_collection_region"]
    for name in makers:
        ci += 1
        if not ctx.mine(ci):
            continue
        reg = getattr(regions, name)()
        drive_grid(ctx, reg.xs, rng, name + ".xs")
        drive_grid(ctx, reg.ys, rng, name + ".ys")
    ci += 1
    if ctx.mine(ci):
        reg = regions.global_region(1.0 if not thorough else 0.5)
        drive_grid(ctx, reg.xs, rng, "global.xs")
        drive_grid(ctx, reg.ys, rng, "global.ys")
    # 6. library call sites
    for j in range(4800 if thorough else 40):
        ci += 1
        if not ctx.mine(ci):
            continue
        r = ctx.rng("c02callers", j)
        s = ["4.95", "5.95", "2.5", "3.95", "5.0"][int(r.integers(0, 5))]
        h = ["0.1", "0.05", "0.2", "0.5"][int(r.integers(0, 4))]
        bins = decimal_bins(s, h, int(r.integers(2, 60)))
        k = r.integers(0, bins.size, 40)
        mags = numpy.concatenate([bins[k], binning.ulp_shift(bins[k], r.integers(-4, 5, 40)),
                                  numpy.round(r.uniform(bins[0], bins[-1] + 1, 40), 2), [bins[-1] + 3.0]])
        if j % 3 == 0:
            mags = numpy.concatenate([mags, [bins[0] - 0.5, bins[0] - 1e-3]])
        ex_callers(ctx, mags, bins)
        ctx.count(int(mags.size))
        ctx.nt_bulk(core_digest(("callers", j, ctx.seed)), int(numpy.unique(mags).size))
    # 6b. edge arrays stored in single precision
    for st_, h_, n_ in [("5.95", "0.1", 31), ("4.95", "0.1", 41), ("2.5", "0.1", 76), ("0", "0.1", 100), ("4.975", "0.05", 40), ("-1.25", "0.25", 30),
                        ("5.0", "0.2", 25), ("0.0", "0.5", 20), ("3.0", "0.1", 60), ("-125.4", "0.1", 40), ("165.7", "0.05", 40), ("31.5", "0.1", 101)]:
        ci += 1
        if ctx.mine(ci):
            ex_f32_edges(ctx, st_, h_, n_)
    if thorough:
        for j in range(400):
            ci += 1
            if not ctx.mine(ci):
                continue
            r = ctx.rng("c02f32", j)
            ex_f32_edges(ctx, str(r.choice(["4.95", "5.95", "2.5", "3.95", "5.0", "0", "-1.5", "10"])), str(r.choice(["0.1", "0.05", "0.2", "0.5", "0.25"])),
                         int(r.integers(3, 120)))
    # 7. the repository's own tests as a workload under the contracts (thorough, one shard)
    if thorough and ctx.shard == 0:
        from ..suite import run_repo_suite
        run_repo_suite(ctx, ["test_calc.py", "test_spatial.py", "test_catalog.py", "test_regions.py", "test_forecast.py", "test_evaluations.py",
                             "test_magnitude_tests.py", "test_adaptiveHistogram.py"])

META["added"] = "Added: edge arrays stored in single precision (on-edge and mid-bin values only), the shipped CSEP_MW_BINS table against the decimal grid. awkward start/step pairs (first edge small against the step, non-binary steps), explicit-tol grids, spacings >= 2 (subnormals next to a 0.0 edge), generator check over awkward steps, the repository's own test-suite as a workload under the contract (thorough). generator called again after an in-place edit of its previous result. open top bin through a catalog's spatial_magnitude_counts. non-native byte order arrays."
MANIFEST = {
    "technique": "runtime contract (post-condition) on the real bin1d_vec/cleaner_range at every call site + exact-comparison reference bin over generated edge-adjacent probes",
    "level_text": "Every call of bin1d_vec made by the workload and by the library's own call sites is checked by an exact-comparison oracle (two hard clauses + documented round-off band); ~1e7 (quick) to ~1e9 (thorough) probe values concentrated on edges +-ulps over thousands of grids, both modes, scalar/array/int/float32 inputs; edge generators compared element-wise with the exact Decimal grid. Held-on-observed, not a proof: the float domain is sampled.",
    "level_note": "Trusted: numpy.searchsorted exact comparisons, Decimal arithmetic, harness generators. Band factor max(8(k+2),4096)*eps only widens the 'either neighbour' zone the property grants.",
}
